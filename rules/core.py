"""Core of the rule engine: loads the MIR facts written by the pdb-facts driver and provides
CFG / call-graph / slicing / guard-liveness utilities used by the per-property rule modules.

Nothing in here executes parity-db code; everything is computed from the fact file, which the
driver derives from the type-checked program (MIR) of /repo's current working tree.
"""
import json, os, re, sys, pickle, hashlib, time
from collections import defaultdict, deque

# ----------------------------------------------------------------------------- places / operands

def place_local(p):
    return p[0]

def place_fields(p):
    return [e for e in p[1:] if isinstance(e, str) and e.startswith('.')]

def place_str(p):
    s = '_%d' % p[0]
    for e in p[1:]:
        if e == '*':
            s = '(*%s)' % s
        else:
            s += e
    return s

def op_place(o):
    return o.get('p') if o.get('o') in ('c', 'm') else None

def op_local(o):
    p = op_place(o)
    return p[0] if p else None

def op_str(o):
    k = o.get('o')
    if k in ('c', 'm'):
        return ('move ' if k == 'm' else '') + place_str(o['p'])
    if 'fn' in o:
        return 'fn:' + o['fn']
    if 'i' in o:
        return 'const %s:%s' % (o['i'], o['ty'])
    if 's' in o:
        return 'const %r' % o['s']
    if 'un' in o:
        return 'const<%s%s>' % (o['un'], ('#p%d' % o['promoted']) if 'promoted' in o else '')
    return 'const<%s>' % o.get('ty')

def rv_str(r):
    k = r['k']
    if k in ('use', 'repeat'):
        return op_str(r['a'][0])
    if k == 'ref':
        return '&%s%s' % ('mut ' if r['m'] == 'mut' else '', place_str(r['p']))
    if k == 'rawptr':
        return '&raw %s' % place_str(r['p'])
    if k == 'cast':
        return '%s as %s [%s from %s]' % (op_str(r['a'][0]), r['to'], r['ck'], r['from'])
    if k == 'bin':
        return '%s(%s, %s)' % (r['op'], op_str(r['a'][0]), op_str(r['a'][1]))
    if k == 'un':
        return '%s(%s)' % (r['op'], op_str(r['a'][0]))
    if k == 'discr':
        return 'discr(%s)' % place_str(r['p'])
    if k == 'agg':
        return '%s{%s}' % (r['ak'], ', '.join(op_str(a) for a in r['a']))
    if k == 'copyderef':
        return 'copyderef %s' % place_str(r['p'])
    return r.get('s', k)


class Body:
    def __init__(self, d, facts):
        self.d = d
        self.facts = facts
        self.path = d['path']
        self.kind = d['kind']
        self.file = d['file']
        self.line = d['line']
        self.blocks = d['blocks']
        self.locals = d['locals']
        self.argc = d['argc']
        self.parent = d.get('parent')
        self.n = len(self.blocks)
        self._succ = None
        self._pred = None
        self._dom = None
        self._pdom = None
        self._defs = None
        self._reach_cache = {}
        self.names = {}
        for k, p in d.get('names', {}).items():
            nm = k.split('#')[0]
            if len(p) == 1:
                self.names.setdefault(p[0], nm)

    def __repr__(self):
        return '<Body %s>' % self.path

    # -- display
    def loc(self, bi=None, si=None):
        if bi is None:
            return '%s:%d' % (self.file, self.line)
        b = self.blocks[bi]
        if si is None or si == 'T':
            ln = b['t'].get('fln') or b['t'].get('ln')
        else:
            ln = b['s'][si].get('ln', b['t'].get('ln'))
        return '%s:%s' % (self.file, ln)

    def local_name(self, l):
        return self.names.get(l, '_%d' % l)

    # -- CFG (normal edges only: unwind/cleanup edges are ignored)
    def term(self, bi):
        return self.blocks[bi]['t']

    def succ(self, bi):
        if self._succ is None:
            self._succ = []
            for b in self.blocks:
                t = b['t']
                k = t['k']
                if k == 'goto':
                    s = [t['t']]
                elif k == 'switch':
                    s = list(dict.fromkeys(t['ts']))
                elif k in ('call', 'drop', 'assert'):
                    s = [t['t']] if 't' in t else []
                elif k == 'asm':
                    s = list(t.get('ts', []))
                else:
                    s = []
                self._succ.append(s)
        return self._succ[bi]

    def pred(self, bi):
        if self._pred is None:
            self._pred = [[] for _ in range(self.n)]
            for i in range(self.n):
                for s in self.succ(i):
                    self._pred[s].append(i)
        return self._pred[bi]

    def normal_blocks(self):
        return self.reachable_from([0])

    def reachable_from(self, starts, removed=frozenset(), removed_edges=frozenset()):
        """blocks reachable from `starts` (inclusive) without entering blocks in `removed`
        and without taking edges in removed_edges (set of (a,b))."""
        seen = set()
        dq = deque(s for s in starts if s not in removed)
        seen.update(dq)
        while dq:
            x = dq.popleft()
            for s in self.succ(x):
                if s in removed or s in seen or (x, s) in removed_edges:
                    continue
                seen.add(s)
                dq.append(s)
        return seen

    def reaches(self, a, removed=frozenset(), removed_edges=frozenset()):
        """blocks from which... no: set of blocks reachable from successors of a (a itself only via a cycle)"""
        return self.reachable_from(
            [s for s in self.succ(a) if (a, s) not in removed_edges], removed, removed_edges)

    # -- variant knowledge (light path sensitivity): `L = Enum::Variant{..}` / `L = const bool`
    # followed by `switch discr(L)` / `switch L` with no intervening write to L is resolved.
    VARIANT_DISCR = {'std::option::Option::None': 0, 'std::option::Option::Some': 1,
                     'std::result::Result::Ok': 0, 'std::result::Result::Err': 1,
                     'std::ops::ControlFlow::Continue': 0, 'std::ops::ControlFlow::Break': 1}

    def _trackable(self):
        """locals whose address is never taken mutably (so writes are visible as direct assignments)"""
        if getattr(self, '_trk', None) is None:
            bad = set()
            for b in self.blocks:
                for s in b['s']:
                    if s['k'] == 'assign':
                        r = s['r']
                        if r['k'] in ('ref', 'rawptr') and r.get('m') != 'shared' and len(r['p']) >= 1:
                            # &mut L or &mut L.field: L may change behind our back
                            if '*' not in r['p'][1:]:
                                bad.add(r['p'][0])
            self._trk = bad
        return self._trk

    def _block_effect(self, bi):
        """(kills, gens, switch_info) for variant knowledge. gens: {local: discr value};
        switch_info: (local, is_discr) if the terminator switches on discr(local) or on local itself."""
        c = getattr(self, '_beff', None)
        if c is None:
            c = self._beff = {}
        if bi in c:
            return c[bi]
        b = self.blocks[bi]
        ops = []   # sequence of ('set', l, v) / ('kill', l) / ('copy', dst, src)
        discr_of = {}
        for s in b['s']:
            if s['k'] == 'assign':
                dst = s['p']
                r = s['r']
                if len(dst) == 1:
                    l = dst[0]
                    if r['k'] == 'agg' and r['ak'].startswith('Adt:'):
                        v = self.VARIANT_DISCR.get(r['ak'][4:])
                        ops.append(('set', l, v) if v is not None else ('kill', l))
                    elif r['k'] == 'use' and 'i' in r['a'][0] and r['a'][0].get('ty') == 'bool':
                        ops.append(('set', l, r['a'][0]['i']))
                    elif r['k'] == 'use' and r['a'][0].get('o') in ('c', 'm') and len(r['a'][0]['p']) == 1:
                        ops.append(('copy', l, r['a'][0]['p'][0]))
                    elif r['k'] == 'discr' and len(r['p']) == 1:
                        ops.append(('discr', l, r['p'][0]))
                    else:
                        ops.append(('kill', l))
                else:
                    ops.append(('kill', dst[0]))
            elif s['k'] == 'setdiscr':
                ops.append(('kill', s['p'][0]))
        t = b['t']
        sw = None
        if t['k'] == 'switch' and t['a'].get('o') in ('c', 'm') and len(t['a']['p']) == 1:
            sw = t['a']['p'][0]
        post = []
        if t['k'] == 'call' and len(t['d']) >= 1:
            # `Try::branch(r)` maps Ok->Continue(0), Err->Break(1): same discriminant numbers
            if (t.get('f') == 'std::ops::Try::branch' and len(t['d']) == 1 and t['a'] and t['a'][0].get('o') in ('c', 'm')
                    and len(t['a'][0]['p']) == 1 and 'std::result::Result<' in (t.get('fa') or '')):
                post.append(('copy', t['d'][0], t['a'][0]['p'][0]))
            else:
                post.append(('kill', t['d'][0]))
            for a in t['a']:
                if a.get('o') == 'm' and len(a['p']) == 1:
                    post.append(('kill', a['p'][0]))
        elif t['k'] == 'drop':
            post.append(('kill', t['p'][0]))
        c[bi] = (ops, sw, post)
        return c[bi]

    def _step_knowledge(self, bi, kn):
        """apply block bi to knowledge dict (tuple of sorted items) -> (allowed successor set or None, new knowledge)"""
        ops, sw, post = self._block_effect(bi)
        k = dict(kn)
        trk_bad = self._trackable()
        for op in ops:
            if op[0] == 'set':
                if op[1] not in trk_bad:
                    k[op[1]] = op[2]
                else:
                    k.pop(op[1], None)
            elif op[0] == 'kill':
                k.pop(op[1], None)
                for key in [x for x in k if isinstance(x, tuple) and x[1] == op[1]]:
                    k.pop(key, None)
            elif op[0] == 'copy':
                if op[2] in k and op[1] not in trk_bad:
                    k[op[1]] = k[op[2]]
                else:
                    k.pop(op[1], None)
            elif op[0] == 'discr':
                # l := discriminant of src
                if op[2] in k:
                    k[op[1]] = k[op[2]]
                else:
                    k.pop(op[1], None)
        allowed = None
        if sw is not None and sw in k:
            t = self.blocks[bi]['t']
            v = k[sw]
            tgt = None
            for val, tg in zip(t['vals'], t['ts']):
                if val == v:
                    tgt = tg
            if tgt is None:
                tgt = t['ts'][-1]
            allowed = {tgt}
        for op in post:
            if op[0] == 'copy':
                if op[2] in k and op[1] not in trk_bad:
                    k[op[1]] = k[op[2]]
                else:
                    k.pop(op[1], None)
            else:
                k.pop(op[1], None)
        return allowed, tuple(sorted(k.items(), key=lambda x: str(x[0])))

    def find_path(self, starts, goals, removed=frozenset(), removed_edges=frozenset(), sensitive=True):
        """a shortest block path from any start to any goal avoiding `removed`; None if none.
        With sensitive=True, branches on the discriminant of a local whose variant was fixed by a
        dominating-on-this-path assignment are resolved (prunes infeasible paths such as
        `x = None; ...; if let Some(..) = x`)."""
        goals = set(goals)
        prev = {}
        dq = deque()
        for s in starts:
            if s in removed:
                continue
            st = (s, ())
            prev[st] = None
            dq.append(st)
        nstates = 0
        while dq:
            st = dq.popleft()
            x, kn = st
            if x in goals:
                path = []
                while st is not None:
                    path.append(st[0])
                    st = prev[st]
                return path[::-1]
            nstates += 1
            if sensitive and nstates < 200000:
                allowed, nk = self._step_knowledge(x, kn)
            else:
                allowed, nk = None, ()
            for s in self.succ(x):
                if s in removed or (x, s) in removed_edges:
                    continue
                if allowed is not None and s not in allowed:
                    continue
                ns = (s, nk)
                if ns in prev:
                    continue
                prev[ns] = st
                dq.append(ns)
        return None

    def return_blocks(self):
        return [i for i in range(self.n) if self.blocks[i]['t']['k'] == 'ret' and not self.blocks[i]['c']]

    def exit_blocks(self):
        """normal blocks with no normal successor (return, diverging call, unreachable...)"""
        nb = self.normal_blocks()
        return [i for i in nb if not self.succ(i)]

    # -- dominators (iterative, Cooper-Harvey-Kennedy on reverse post-order)
    def _compute_dom(self, succ_f, pred_f, roots):
        order = []
        seen = set()
        # iterative DFS post-order
        for r in roots:
            if r in seen:
                continue
            stack = [(r, iter(succ_f(r)))]
            seen.add(r)
            while stack:
                node, it = stack[-1]
                adv = False
                for s in it:
                    if s not in seen:
                        seen.add(s)
                        stack.append((s, iter(succ_f(s))))
                        adv = True
                        break
                if not adv:
                    order.append(node)
                    stack.pop()
        rpo = order[::-1]
        idx = {b: i for i, b in enumerate(rpo)}
        idom = {}
        ROOT = -1
        for r in roots:
            idom[r] = ROOT
        def intersect(a, b):
            while a != b:
                while a != ROOT and b != ROOT and idx.get(a, -1) > idx.get(b, -1):
                    a = idom[a]
                while a != ROOT and b != ROOT and idx.get(b, -1) > idx.get(a, -1):
                    b = idom[b]
                if a == ROOT or b == ROOT:
                    return ROOT
            return a
        changed = True
        while changed:
            changed = False
            for b in rpo:
                if b in roots:
                    continue
                new = None
                for p in pred_f(b):
                    if p in idom:
                        new = p if new is None else intersect(p, new)
                if new is not None and idom.get(b) != new:
                    idom[b] = new
                    changed = True
        return idom

    def idom(self):
        if self._dom is None:
            self._dom = self._compute_dom(self.succ, self.pred, [0])
        return self._dom

    def dominates(self, a, b):
        """block a dominates block b (reflexive). Unreachable b -> True vacuously is NOT assumed: returns False."""
        idom = self.idom()
        if b not in idom:
            return False
        x = b
        while x != -1:
            if x == a:
                return True
            x = idom.get(x, -1)
        return False

    def ipdom(self):
        if self._pdom is None:
            exits = self.exit_blocks()
            nb = self.normal_blocks()
            # virtual exit = -2
            EXIT = -2
            def succ_r(x):
                if x == EXIT:
                    return exits
                return [p for p in self.pred(x) if p in nb]
            def pred_r(x):
                if x == EXIT:
                    return []
                s = list(self.succ(x))
                if x in exits:
                    s = s + [EXIT]
                return s
            self._pdom = self._compute_dom(succ_r, pred_r, [EXIT])
        return self._pdom

    def postdominates(self, a, b):
        """a post-dominates b w.r.t. normal exits (return / diverging)."""
        ip = self.ipdom()
        if b not in ip:
            return False
        x = b
        while x not in (-1, -2):
            if x == a:
                return True
            x = ip.get(x, -1)
        return False

    # -- control dependence (transitive): set of (switch_block, succ) pairs b depends on
    def control_deps(self, b):
        """All (s, t): s is a branching block, t a successor of s, such that b is reachable from t
        and b does NOT post-dominate s - i.e. taking edge s->t (rather than another) matters for
        reaching b - restricted to s that can reach b. Transitive by construction (uses reachability).
        Returns list of (s, [succs of s from which b is reachable without passing s again],
                            [succs from which it is not])."""
        res = []
        nb = self.normal_blocks()
        for s in nb:
            sc = self.succ(s)
            if len(sc) < 2:
                continue
            yes, no = [], []
            for t in sc:
                r = self.reachable_from([t], removed={s})
                (yes if b in r else no).append(t)
            if yes and no:
                res.append((s, yes, no))
        return res

    # -- definitions of locals
    def defs(self):
        """local -> list of (block, stmt_index|'T', kind, payload) ; kind in assign/call"""
        if self._defs is None:
            d = defaultdict(list)
            for bi, b in enumerate(self.blocks):
                for si, s in enumerate(b['s']):
                    if s['k'] == 'assign':
                        d[s['p'][0]].append((bi, si, 'assign', s))
                t = b['t']
                if t['k'] == 'call':
                    d[t['d'][0]].append((bi, 'T', 'call', t))
            self._defs = d
        return self._defs

    # -- calls
    def calls(self):
        for bi, b in enumerate(self.blocks):
            if b['c']:
                continue
            t = b['t']
            if t['k'] in ('call', 'tailcall'):
                yield bi, t

    def all_calls(self):
        for bi, b in enumerate(self.blocks):
            t = b['t']
            if t['k'] in ('call', 'tailcall'):
                yield bi, t

    def call_sites(self, *pats):
        nb = self.normal_blocks()
        return [bi for bi, t in self.calls() if bi in nb and call_matches(t, pats)]

    def pretty(self, out=sys.stdout, show_cleanup=False):
        out.write('fn %s  (%s:%d) argc=%d\n' % (self.path, self.file, self.line, self.argc))
        for i, l in enumerate(self.locals):
            out.write('  let _%d: %s%s\n' % (i, l, ('  // ' + self.names[i]) if i in self.names else ''))
        for bi, b in enumerate(self.blocks):
            if b['c'] and not show_cleanup:
                continue
            out.write(' bb%d%s:\n' % (bi, ' (cleanup)' if b['c'] else ''))
            for s in b['s']:
                if s['k'] == 'assign':
                    out.write('    %s = %s    // L%s %s\n' % (place_str(s['p']), rv_str(s['r']), s.get('ln'), s.get('mx', '')))
                elif s['k'] == 'setdiscr':
                    out.write('    discr(%s) := %s\n' % (place_str(s['p']), s['v']))
                elif s['k'] == 'intrinsic':
                    out.write('    intrinsic %s\n' % s['s'])
            t = b['t']
            k = t['k']
            if k == 'call':
                nm = t.get('r') or t.get('f') or ('indirect ' + op_str(t['fop']))
                extra = '' if t.get('r') == t.get('f') or not t.get('f') else '  [via %s]' % t['f']
                out.write('    %s = %s(%s) -> %s%s    // L%s %s\n' % (place_str(t['d']), nm, ', '.join(op_str(a) for a in t['a']),
                          ('bb%d' % t['t']) if 't' in t else '!', extra, t.get('fln'), t.get('mx', '')))
            elif k == 'switch':
                arms = ', '.join('%s->bb%d' % (v, tt) for v, tt in zip(t['vals'], t['ts']))
                out.write('    switch %s [%s, else->bb%d]    // L%s\n' % (op_str(t['a']), arms, t['ts'][-1], t.get('ln')))
            elif k == 'drop':
                out.write('    drop(%s: %s) -> bb%d\n' % (place_str(t['p']), t['ty'], t['t']))
            elif k == 'goto':
                out.write('    goto bb%d\n' % t['t'])
            elif k == 'assert':
                out.write('    assert(%s == %s, %s) -> bb%d\n' % (op_str(t['a']), t['exp'], t['msg'], t['t']))
            else:
                out.write('    %s\n' % k)


def call_names(t):
    return [x for x in (t.get('r'), t.get('f')) if x]

def call_matches(t, pats):
    """pats: iterable of patterns. A pattern is an exact def-path (compared with the resolved
    callee `r` and the syntactic callee `f`), or 're:<regex>' searched in r, f, ra, fa."""
    names = call_names(t)
    for p in pats:
        if callable(p):
            if p(t):
                return True
        elif p.startswith('re:'):
            rx = re.compile(p[3:])
            for n in names + [x for x in (t.get('ra'), t.get('fa')) if x]:
                if rx.search(n):
                    return True
        else:
            if p in names:
                return True
    return False


def rename_aliases(raw, reg):
    """pure renames relative to the registry the rules were written against:
    returns (field_alias {(struct_path, new): old}, fn_alias {new_path: old_path})"""
    fa, fna = {}, {}
    adts = {a['path']: a for a in raw['adts']}
    for spath, rf in reg.get('fields', {}).items():
        a = adts.get(spath)
        if a is None or a['kind'] != 'Struct' or len(a['variants']) != 1:
            continue
        act = {f['name']: f['ty'] for f in a['variants'][0]['fields']}
        missing = [m for m in rf if m not in act]
        extra = [e for e in act if e not in rf]
        used = set()
        for m in missing:
            cands = [e for e in extra if act[e] == rf[m] and e not in used]
            same_ty_missing = [m2 for m2 in missing if rf[m2] == rf[m]]
            if len(cands) == 1 and len(same_ty_missing) == 1:
                fa[(spath, cands[0])] = m
                used.add(cands[0])
    bodies = {b['path']: b for b in raw['bodies']}
    def norm(sig):
        return re.sub(r"'[a-z_0-9]+", "'_", sig or '')
    extra_fns = [p for p, b in bodies.items() if b['kind'] != 'Closure' and '{closure' not in p and not p.startswith('<') and p not in reg.get('fns', {})]
    for p, sig in reg.get('fns', {}).items():
        if p in bodies:
            continue
        parent = p.rsplit('::', 1)[0]
        cands = [q for q in extra_fns if q.rsplit('::', 1)[0] == parent and norm(bodies[q].get('sig')) == norm(sig) and q not in fna]
        others = [p2 for p2, s2 in reg['fns'].items() if p2 not in bodies and p2.rsplit('::', 1)[0] == parent and norm(s2) == norm(sig)]
        if len(cands) == 1 and len(others) == 1:
            fna[cands[0]] = p
    return fa, fna


class Facts:
    def __init__(self, path):
        t0 = time.time()
        with open(path) as f:
            text = f.read()
        self.raw = json.loads(text)
        self.renames = {}
        regp = os.path.join(os.path.dirname(os.path.abspath(__file__)), 'registry.json')
        if os.path.exists(regp):
            fa, fna = rename_aliases(self.raw, json.load(open(regp)))
            if fa or fna:
                for (spath, new), old in fa.items():
                    short = spath.rsplit('::', 1)[-1]
                    text = text.replace(json.dumps('.%s.%s' % (short, new)), json.dumps('.%s.%s' % (short, old)))
                    self.renames['%s.%s' % (spath, new)] = old
                for new, old in fna.items():
                    esc_new, esc_old = json.dumps(new)[1:-1], json.dumps(old)[1:-1]
                    text = re.sub(re.escape(esc_new) + r'(?=("|::\{))', lambda m: esc_old, text)
                    self.renames[new] = old
                self.raw = json.loads(text)
                for (spath, new), old in fa.items():
                    for a in self.raw['adts']:
                        if a['path'] == spath:
                            for f2 in a['variants'][0]['fields']:
                                if f2['name'] == new:
                                    f2['name'] = old
        self.path = path
        self.crate = self.raw['crate']
        self.bodies = {}
        for d in self.raw['bodies']:
            b = Body(d, self)
            self.bodies[b.path] = b
        self.adts = {a['path']: a for a in self.raw['adts']}
        self.consts = {c['path']: c for c in self.raw['consts']}
        self._callers = None
        self._callees = None
        self.load_s = time.time() - t0
        self.ncalls = sum(1 for b in self.bodies.values() for _ in b.all_calls())

    def body(self, path):
        return self.bodies.get(path)

    def closures_of(self, path):
        return [b for b in self.bodies.values() if b.kind == 'Closure' and b.parent == path]

    # --- call graph over crate-local bodies. Closures: an edge parent -> closure where the closure
    # value is created (over-approximation: "a closure is called where it is made").
    def callees(self, path):
        if self._callees is None:
            self._build_cg()
        return self._callees.get(path, set())

    def callers(self, path):
        if self._callers is None:
            self._build_cg()
        return self._callers.get(path, set())

    def _build_cg(self):
        ce = defaultdict(set)
        cr = defaultdict(set)
        self._dispatch = {}
        for b in self.bodies.values():
            for bi, t in b.all_calls():
                names = call_names(t)
                resolved = any(n in self.bodies for n in names)
                for n in names:
                    if n in self.bodies:
                        ce[b.path].add(n)
                        cr[n].add(b.path)
                    elif resolved:
                        # the compiler resolved this call to one crate body (concrete receiver type): the trait-method path it was
                        # written through names no further candidates
                        continue
                    elif '::' in n and not n.startswith('<'):
                        # call through a crate-local trait (dyn or generic): every crate impl of that method
                        tr, _, meth = n.rpartition('::')
                        for imp in self.trait_impls(tr, meth):
                            ce[b.path].add(imp)
                            cr[imp].add(b.path)
                            self._dispatch.setdefault(b.path, set()).add((tr, imp))
                # function items passed as arguments (e.g. map_err(Error::Io), thread::spawn(f))
                for a in t['a']:
                    fn = a.get('fn')
                    if fn and fn in self.bodies:
                        ce[b.path].add(fn)
                        cr[fn].add(b.path)
            for blk in b.blocks:
                t = blk['t']
                if t['k'] == 'drop':
                    for dp in self.drop_impls_for(t['ty']):
                        ce[b.path].add(dp)
                        cr[dp].add(b.path)
                for s in blk['s']:
                    if s['k'] == 'assign' and s['r']['k'] == 'agg' and s['r']['ak'].startswith('Closure:'):
                        c = s['r']['ak'][len('Closure:'):]
                        if c in self.bodies:
                            ce[b.path].add(c)
                            cr[c].add(b.path)
                    if s['k'] == 'assign' and s['r']['k'] in ('use', 'cast'):
                        for a in s['r']['a']:
                            fn = a.get('fn')
                            if fn and fn in self.bodies:
                                ce[b.path].add(fn)
                                cr[fn].add(b.path)
        self._callees, self._callers = ce, cr

    def trait_impls(self, trait_path, meth):
        """crate bodies `<X as trait_path>::meth` (impls of a crate-local trait method)"""
        idx = self.__dict__.setdefault('_trait_idx', None)
        if idx is None:
            idx = {}
            for p, b in self.bodies.items():
                tr = b.d.get('impl_trait')
                if tr and p.startswith('<'):
                    idx.setdefault((tr, p.rsplit('::', 1)[-1]), []).append(p)
            self._trait_idx = idx
        return idx.get((trait_path, meth), [])

    def drop_impls_for(self, ty):
        """crate-local Drop::drop bodies run when a value of type `ty` (string) is dropped: the impl
        for the type itself and for any local ADT named inside it (fields, generics) - an
        over-approximation by type-name containment."""
        if not hasattr(self, '_drop_impls'):
            self._drop_impls = {}
            for p, b in self.bodies.items():
                if b.d.get('impl_trait') == 'std::ops::Drop' and p.endswith('::drop'):
                    st = b.d.get('impl_self') or ''
                    base = st.split('<')[0]
                    self._drop_impls[base] = p
            # ADT containment: type name -> field type strings
            self._adt_fields = {a['path']: [f['ty'] for v in a['variants'] for f in v['fields']] for a in self.raw['adts']}
        cache = self.__dict__.setdefault('_drop_cache', {})
        if ty in cache:
            return cache[ty]
        if not self._drop_impls:
            cache[ty] = set()
            return cache[ty]
        res = set()
        seen = set()
        stack = [ty]
        while stack:
            t = stack.pop()
            if t in seen:
                continue
            seen.add(t)
            for base, p in self._drop_impls.items():
                if re.search(r'(?<![A-Za-z0-9_:])' + re.escape(base) + r'(?![A-Za-z0-9_])', t):
                    res.add(p)
            for adt, ftys in self._adt_fields.items():
                if re.search(r'(?<![A-Za-z0-9_:])' + re.escape(adt) + r'(?![A-Za-z0-9_])', t):
                    for ft in ftys:
                        if ft not in seen:
                            stack.append(ft)
        cache[ty] = res
        return res

    def transitive_callers(self, paths):
        seen = set(paths)
        dq = deque(paths)
        while dq:
            x = dq.popleft()
            for c in self.callers(x):
                if c not in seen:
                    seen.add(c)
                    dq.append(c)
        return seen

    def transitive_callees(self, paths):
        seen = set(paths)
        dq = deque(paths)
        while dq:
            x = dq.popleft()
            for c in self.callees(x):
                if c not in seen:
                    seen.add(c)
                    dq.append(c)
        return seen

    def direct_callers_of(self, *pats):
        """bodies that contain a call terminator (any block incl. cleanup) matching pats"""
        res = set()
        for b in self.bodies.values():
            for bi, t in b.all_calls():
                if call_matches(t, pats):
                    res.add(b.path)
                    break
        return res

    def may_reach(self, *pats):
        """set of body paths from which a call matching pats is reachable through crate-local calls
        (incl. the direct callers)."""
        return self.transitive_callers(self.direct_callers_of(*pats))

    def must_reach(self, pats, assume=None):
        """set of bodies in which EVERY entry->normal-exit(Return) path passes a call matching
        pats or a call to a body already in the set (least fixed point; error exits are not cut
        here - use Engine helpers for Ok-path variants)."""
        S = set()
        changed = True
        while changed:
            changed = False
            for b in self.bodies.values():
                if b.path in S:
                    continue
                T = set()
                for bi, t in b.calls():
                    if call_matches(t, pats) or any(n in S for n in call_names(t)):
                        T.add(bi)
                if not T:
                    continue
                rets = b.return_blocks()
                if not rets:
                    continue
                r = b.reachable_from([0], removed=T)
                if not any(x in r for x in rets):
                    S.add(b.path)
                    changed = True
        return S


# ----------------------------------------------------------------------------- result exits

RES_ERR = 'Adt:std::result::Result::Err'
RES_OK = 'Adt:std::result::Result::Ok'

def error_exit_blocks(body):
    """Blocks in which the return place _0 is assigned an error: `_0 = Err(..)` aggregate or
    `_0 = from_residual(..)` (the `?` error arm). Returns set of blocks."""
    res = set()
    for bi, b in enumerate(body.blocks):
        if b['c']:
            continue
        for s in b['s']:
            if s['k'] == 'assign' and s['p'] == [0] and s['r']['k'] == 'agg' and s['r']['ak'] == RES_ERR:
                res.add(bi)
        t = b['t']
        if t['k'] == 'call' and t['d'] == [0] and call_matches(t, ['std::ops::FromResidual::from_residual']):
            res.add(bi)
    return res

def ok_exit_blocks(body):
    """blocks in which _0 is assigned something that is not syntactically an error (Ok aggregate,
    pass-through of a callee's result, move of a local) - success or unknown."""
    res = set()
    errs = error_exit_blocks(body)
    for bi, b in enumerate(body.blocks):
        if b['c'] or bi in errs:
            continue
        for s in b['s']:
            if s['k'] == 'assign' and s['p'][0] == 0:
                res.add(bi)
        t = b['t']
        if t['k'] == 'call' and t['d'][0] == 0:
            res.add(bi)
    return res


# ----------------------------------------------------------------------------- backward slice

class Slice:
    def __init__(self):
        self.fields = set()    # '.Struct.field' strings read anywhere in the slice
        self.calls = set()     # callee names (resolved and syntactic)
        self.params = set()    # argument locals reached
        self.consts = []       # constant operands (dicts)
        self.locals = set()
        self.binops = set()
        self.call_sites = []   # (block, term)

def backward_slice(body, roots, max_nodes=4000, through_calls=True):
    """Flow-insensitive backward data slice over MIR places, intraprocedural.
    roots: iterable of local indices (or places). Follows assignments (use, ref, cast, bin, un,
    discr, agg, copyderef) and call destinations (to the call's arguments)."""
    sl = Slice()
    defs = body.defs()
    dq = deque()
    def push_place(p):
        # field-sensitive step for tuples built in this body: `_t.#i` with `_t = Tuple{a0, a1, ..}`
        if len(p) >= 2 and isinstance(p[1], str) and p[1].startswith('.#'):
            ds = [d for d in defs.get(p[0], []) if d[2] == 'assign']
            if len(ds) == 1 and ds[0][3]['r']['k'] == 'agg' and ds[0][3]['r']['ak'] == 'Tuple' and len(defs.get(p[0], [])) == 1:
                i = int(p[1][2:])
                ops = ds[0][3]['r']['a']
                if i < len(ops):
                    sl.locals.add(p[0])
                    o = ops[i]
                    pp = op_place(o)
                    if pp is not None:
                        push_place(pp + p[2:] if False else pp)
                        for e in p[2:]:
                            if isinstance(e, str) and e.startswith('.'):
                                sl.fields.add(e)
                    else:
                        sl.consts.append(o)
                    return
        for e in p[1:]:
            if isinstance(e, str):
                if e.startswith('.'):
                    sl.fields.add(e)
                elif e.startswith('[_'):
                    l = int(e[2:-1])
                    if l not in sl.locals:
                        sl.locals.add(l); dq.append(l)
        l = p[0]
        if l not in sl.locals:
            sl.locals.add(l)
            dq.append(l)
    def push_op(o):
        p = op_place(o)
        if p is not None:
            push_place(p)
        else:
            sl.consts.append(o)
            if 'fn' in o:
                sl.calls.add(o['fn'])
    for r in roots:
        if isinstance(r, int):
            push_place([r])
        else:
            push_place(r)
    n = 0
    while dq and n < max_nodes:
        l = dq.popleft()
        n += 1
        if 1 <= l <= body.argc:
            sl.params.add(l)
        for (bi, si, kind, x) in defs.get(l, []):
            if kind == 'assign':
                # assignments through a projection of l (e.g. (*_5).f = ..) also define "l"
                r = x['r']
                k = r['k']
                if k in ('use', 'repeat', 'cast', 'bin', 'un', 'agg'):
                    if k == 'bin':
                        sl.binops.add(r['op'])
                    if k == 'agg' and str(r.get('ak', '')).startswith('Closure:'):
                        sl.calls.add(r['ak'][8:])      # a closure built in the slice: its body may decide the value
                    for a in r['a']:
                        push_op(a)
                elif k in ('ref', 'rawptr', 'discr', 'copyderef'):
                    push_place(r['p'])
            elif kind == 'call' and through_calls:
                for nme in call_names(x):
                    sl.calls.add(nme)
                sl.call_sites.append((bi, x))
                for a in x['a']:
                    push_op(a)
                if 'fop' in x:
                    push_op(x['fop'])
    return sl


def local_origin_fields(body, local):
    """fields on the provenance chain of a reference-like local (receiver resolution):
    follows refs / copies / deref calls back to a field projection. Returns Slice."""
    return backward_slice(body, [local])


# ----------------------------------------------------------------------------- guard liveness

GUARD_RX = re.compile(r'(MutexGuard|RwLockReadGuard|RwLockWriteGuard|RwLockUpgradableReadGuard|MappedRwLockReadGuard|MappedRwLockWriteGuard|MappedMutexGuard)<')

def guard_kind(ty):
    m = GUARD_RX.search(ty)
    return m.group(1) if m else None

def is_guard_value_type(ty):
    """type is (or owns) a guard by value (not a reference to one)."""
    if ty.startswith('&'):
        return False
    return GUARD_RX.search(ty) is not None


def guard_liveness(body, extra_guard_types=(), removed_edges=frozenset()):
    """Forward must-dataflow of live guard-owning locals.
    Returns (IN, acquisitions) where IN[b] = frozenset of (local) definitely holding a guard at
    entry of block b; the state just before the terminator of b is IN[b] modified by b's
    statements. A local becomes live when it is the destination of a call whose return type owns
    a guard (by value), or is assigned by move from a live local (also through Option/struct
    aggregates and field moves); it dies at Drop of the local, when moved out as a call argument,
    or moved into another place."""
    def owns(ty):
        if ty.startswith('&'):
            return False
        if GUARD_RX.search(ty):
            return True
        return any(e in ty for e in extra_guard_types)
    n = body.n
    nb = sorted(body.normal_blocks())
    TOP = None
    IN = {b: TOP for b in nb}
    IN[0] = frozenset()
    acq = {}   # local -> list of (block, term) acquisition sites
    def transfer(bi, st):
        st = set(st)
        b = body.blocks[bi]
        for s in b['s']:
            if s['k'] == 'assign':
                r = s['r']
                dst = s['p']
                if r['k'] in ('use', 'agg', 'cast'):
                    moved_live = False
                    for a in r['a']:
                        if a.get('o') == 'm' and a['p'][0] in st:
                            # moving (part of) a live guard holder
                            src_ty = body.locals[a['p'][0]]
                            st.discard(a['p'][0])
                            moved_live = True
                    if moved_live and owns(body.locals[dst[0]]):
                        st.add(dst[0])
        t = b['t']
        out_normal = set(st)
        if t['k'] == 'call':
            for a in t['a']:
                if a.get('o') == 'm' and a['p'][0] in out_normal and len(a['p']) == 1:
                    out_normal.discard(a['p'][0])
            if owns(t['rty']) and len(t['d']) == 1:
                out_normal.add(t['d'][0])
                acq.setdefault(t['d'][0], [])
                if (bi, ) not in [(x[0],) for x in acq[t['d'][0]]]:
                    acq[t['d'][0]].append((bi, t))
        elif t['k'] == 'drop':
            if len(t['p']) == 1:
                out_normal.discard(t['p'][0])
        return st, frozenset(out_normal)
    PRE = {}
    work = deque([0])
    OUT = {}
    while work:
        bi = work.popleft()
        st = IN[bi]
        pre, out = transfer(bi, st)
        PRE[bi] = frozenset(pre)
        OUT[bi] = out
        # variant sensitivity: a `Result<..>` local that owns a guard holds none on its Err edge,
        # an `Option<..>` local none on its None edge
        edge_kill = {}
        tm = body.blocks[bi]['t']
        if tm['k'] == 'switch':
            d = None
            l = tm['a'].get('p', [None])[0] if tm['a'].get('o') in ('c', 'm') else None
            for st2 in body.blocks[bi]['s']:
                if st2['k'] == 'assign' and st2['p'] == [l] and st2['r']['k'] == 'discr' and len(st2['r']['p']) == 1:
                    d = st2['r']['p'][0]
            if d is not None and d in out:
                ty = body.locals[d]
                empty_val = 1 if ty.startswith('std::result::Result<') else (0 if ty.startswith('std::option::Option<') else None)
                if empty_val is not None:
                    for v, tg in zip(tm['vals'], tm['ts']):
                        if v == empty_val:
                            edge_kill[tg] = d
                    if empty_val not in tm['vals'] and len(tm['vals']) == 1:
                        edge_kill[tm['ts'][-1]] = d
        for s in body.succ(bi):
            if s not in IN or (bi, s) in removed_edges:
                continue
            o2 = out - {edge_kill[s]} if s in edge_kill else out
            new = o2 if IN[s] is TOP else (IN[s] & o2)
            if IN[s] is TOP or new != IN[s]:
                IN[s] = new
                work.append(s)
    return IN, PRE, acq


def lock_class_of_acquisition(body, t):
    """Lock class of an acquiring call: the struct field on the provenance of its receiver
    (first argument), e.g. 'DbInner.commit_overlay'. Falls back to the callee name for calls
    that return a guard-owning value from a crate function (class = 'ret:<callee>')."""
    if t['a']:
        sl = backward_slice(body, [op_local(t['a'][0])] if op_local(t['a'][0]) is not None else [], through_calls=True)
        fl = sorted(sl.fields)
        if fl:
            return fl
    return ['ret:' + (t.get('r') or t.get('f') or '?')]


# ----------------------------------------------------------------------------- misc helpers

def stmt_sites_assigning_field(body, field):
    """(block, stmt) sites that store to a place whose projection contains `field`."""
    res = []
    nb = body.normal_blocks()
    for bi in nb:
        for si, s in enumerate(body.blocks[bi]['s']):
            if s['k'] == 'assign' and field in s['p'][1:]:
                res.append((bi, si))
    return res


def source_hash(repo):
    h = hashlib.sha256()
    paths = []
    for root in ('src', 'admin'):
        for dp, dn, fn in os.walk(os.path.join(repo, root)):
            dn[:] = [d for d in dn if d != 'target']
            for f in fn:
                paths.append(os.path.join(dp, f))
    for f in ('Cargo.toml', 'Cargo.lock', 'admin/Cargo.toml'):
        paths.append(os.path.join(repo, f))
    for p in sorted(set(paths)):
        try:
            with open(p, 'rb') as fh:
                h.update(p.encode()); h.update(b'\0'); h.update(fh.read())
        except OSError:
            pass
    return h.hexdigest()
