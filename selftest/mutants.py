"""Self-test corpus: each mutant is (name, file, old, new, {property: [substring expected in a VIOLATED key]}).
Every mutant compiles and is meant to keep the 36 pinned tests green; it breaks exactly one instance."""
M = []
def m(name, file, old, new, expect, count=1, more=()):
    M.append(dict(name=name, file=file, old=old, new=new, expect=expect, count=count, more=more))

# ---- C01 / C05
m('01-no-queue-push', 'src/db.rs', "\t\tqueue.commits.push_back(commit);\n\t\tqueue.bytes += bytes;\n\t\tself.log_worker_wait.signal();", "\t\tdrop(commit);\n\t\tqueue.bytes += bytes;\n\t\tself.log_worker_wait.signal();",
  {'C01': ['1a commit_raw-queues-the-commit']})
m('03-clean-overlay-no-id-check', 'src/db.rs', "\t\t\t\t\tif let Entry::Occupied(e) = overlay.indexed.entry(*k) {\n\t\t\t\t\t\tif e.get().0 == record_id {\n\t\t\t\t\t\t\te.remove_entry();\n\t\t\t\t\t\t}\n\t\t\t\t\t}",
  "\t\t\t\t\tif let Entry::Occupied(e) = overlay.indexed.entry(*k) {\n\t\t\t\t\t\tlet _ = record_id;\n\t\t\t\t\t\te.remove_entry();\n\t\t\t\t\t}", {'C01': ['3a owner-guard db::IndexedChangeSet::clean_overlay'], 'C05': ['owner-guard db::IndexedChangeSet::clean_overlay']})
m('04-end_read-no-id-check', 'src/log.rs', "\t\tfor (table, index) in cleared.values.into_iter() {\n\t\t\tif let Some(ref mut overlay) = overlays.value.get_mut(table.log_index()) {\n\t\t\t\tif let std::collections::hash_map::Entry::Occupied(e) = overlay.map.entry(index) {\n\t\t\t\t\tif e.get().0 == record_id {\n\t\t\t\t\t\te.remove_entry();\n\t\t\t\t\t}",
  "\t\tfor (table, index) in cleared.values.into_iter() {\n\t\t\tif let Some(ref mut overlay) = overlays.value.get_mut(table.log_index()) {\n\t\t\t\tif let std::collections::hash_map::Entry::Occupied(e) = overlay.map.entry(index) {\n\t\t\t\t\t{\n\t\t\t\t\t\te.remove_entry();\n\t\t\t\t\t}",
  {'C01': ['3a owner-guard log::Log::end_read'], 'C05': ['owner-guard log::Log::end_read']})
m('05-drop-overlay-before-table-lookup', 'src/db.rs', "\t\t\t\t// Go into tables and log overlay.\n\t\t\t\tlet log = self.log.overlays();\n\t\t\t\tOk(column.get(&key, log)?.map(|(v, _rc)| v))\n\t\t\t},\n\t\t\tColumn::Tree(column) => {\n\t\t\t\tlet overlay = self.commit_overlay.read();\n\t\t\t\tif let Some(l) = overlay.get(col as usize).and_then(|o| o.btree_get(key)) {\n\t\t\t\t\treturn Ok(l.map(|i| i.value().clone()))",
  "\t\t\t\t// Go into tables and log overlay.\n\t\t\t\tdrop(overlay);\n\t\t\t\tlet log = self.log.overlays();\n\t\t\t\tOk(column.get(&key, log)?.map(|(v, _rc)| v))\n\t\t\t},\n\t\t\tColumn::Tree(column) => {\n\t\t\t\tlet overlay = self.commit_overlay.read();\n\t\t\t\tif let Some(l) = overlay.get(col as usize).and_then(|o| o.btree_get(key)) {\n\t\t\t\t\treturn Ok(l.map(|i| i.value().clone()))",
  {'C01': ['4c overlay-lock-held db::DbInner::get/hash'], 'C05': ['overlay-lock-held db::DbInner::get/hash']})
m('07-changes-iter-rev', 'src/db.rs', "\t\tfor change in self.changes.iter() {\n\t\t\tif let PlanOutcome::NeedReindex = column.write_plan(change, writer)? {", "\t\tfor change in self.changes.iter().rev() {\n\t\t\tif let PlanOutcome::NeedReindex = column.write_plan(change, writer)? {",
  {'C01': ['5a changes-never-reordered']})
m('02-clean-before-end_record', 'src/db.rs', "\t\t\tlet bytes = {\n\t\t\t\tlet bytes = self.log.end_record(l)?;", "\t\t\t{\n\t\t\t\tlet mut overlay = self.commit_overlay.write();\n\t\t\t\tfor (c, key_values) in commit.changeset.indexed.iter() {\n\t\t\t\t\tkey_values.clean_overlay(&mut overlay[*c as usize], commit.id);\n\t\t\t\t}\n\t\t\t}\n\t\t\tlet bytes = {\n\t\t\t\tlet bytes = self.log.end_record(l)?;",
  {'C01': ['2b logged-before-overlay-cleaned'], 'C05': ['logged-before-overlay-cleaned']})
# ---- C02 / C13
m('12-endrecord-before-crc', 'src/log.rs', "\t\t\t\t\tif checksum != expected {\n\t\t\t\t\t\treturn Err(Error::Corruption(\"Log record CRC-32 mismatch\".into()))\n\t\t\t\t\t}", "\t\t\t\t\tif checksum != expected {\n\t\t\t\t\t\tlog::warn!(target: \"parity-db\", \"Log record CRC-32 mismatch\");\n\t\t\t\t\t}",
  {'C02': ['2m EndRecord-only-if-crc-equal'], 'C13': ['1m EndRecord-only-if-crc-equal']})
m('13-no-sequence-check', 'src/db.rs', "\t\t\t\t\tif reader.record_id() != self.last_enacted.load(Ordering::Relaxed) + 1 {", "\t\t\t\t\tif reader.record_id() == 0 {", {'C02': ['2f sequence-guard'], 'C13': ['1f sequence-guard']})
m('14-write_at-outside-applier', 'src/table.rs', "\tpub fn write_remove_plan(&self, index: u64, log: &mut LogWriter) -> Result<()> {\n\t\tif self.multipart {", "\tpub fn write_remove_plan(&self, index: u64, log: &mut LogWriter) -> Result<()> {\n\t\tif index == u64::MAX {\n\t\t\tself.file.write_at(TOMBSTONE, 0)?;\n\t\t}\n\t\tif self.multipart {",
  {'C02': ['1d table-write-primitive'], 'C05': ['table-write-primitive'], 'C12': ['table-write-primitive']})
m('15-index-applier-rmw', 'src/index.rs', "\t\tlet mut mask_buf = [0u8; 8];\n\t\tlog.read(&mut mask_buf)?;\n\t\tlet mut mask = u64::from_le_bytes(mask_buf);\n\t\twhile mask != 0 {\n\t\t\tlet i = mask.trailing_zeros();\n\t\t\tmask &= !(1 << i);\n\t\t\tlog.read(try_io!(Ok(\n\t\t\t\t&mut chunk[i as usize * ENTRY_BYTES..(i as usize + 1) * ENTRY_BYTES]\n\t\t\t)))?;\n\t\t}\n\t\tlog::trace!(target: \"parity-db\", \"{}: Enacted chunk {}\", self.id, index);",
  "\t\tlet mut mask_buf = [0u8; 8];\n\t\tlog.read(&mut mask_buf)?;\n\t\tlet mut mask = u64::from_le_bytes(mask_buf);\n\t\twhile mask != 0 {\n\t\t\tlet i = mask.trailing_zeros();\n\t\t\tmask &= !(1 << i);\n\t\t\tlet mut e = [0u8; ENTRY_BYTES];\n\t\t\tlog.read(&mut e)?;\n\t\t\tfor k in 0..ENTRY_BYTES {\n\t\t\t\tchunk[i as usize * ENTRY_BYTES + k] |= e[k];\n\t\t\t}\n\t\t}\n\t\tlog::trace!(target: \"parity-db\", \"{}: Enacted chunk {}\", self.id, index);",
  {'C02': ['4c no-read-modify-write index::IndexTable::enact_plan']})
m('16-threads-before-replay', 'src/db.rs', "\t\tdb.init_table_data()?;\n\t\tlet db = Arc::new(db);", "\t\tlet db = Arc::new(db);", {'C02': ['6']})
# ---- C03
m('17-unlock-before-kill_logs', 'src/db.rs', "\t\tif let Err(e) = self.inner.kill_logs(&self.inner) {\n\t\t\tlog::warn!(target: \"parity-db\", \"Shutdown error: {:?}\", e);\n\t\t}\n\t\tif let Err(e) = self.inner.lock_file.unlock() {\n\t\t\tlog::debug!(target: \"parity-db\", \"Error removing file lock: {:?}\", e);\n\t\t}",
  "\t\tif let Err(e) = self.inner.lock_file.unlock() {\n\t\t\tlog::debug!(target: \"parity-db\", \"Error removing file lock: {:?}\", e);\n\t\t}\n\t\tif let Err(e) = self.inner.kill_logs(&self.inner) {\n\t\t\tlog::warn!(target: \"parity-db\", \"Shutdown error: {:?}\", e);\n\t\t}", {'C18': ['3b kill_logs-before-unlock']})
m('18-kill_logs-no-second-drain', 'src/db.rs', "\t\twhile self.process_commits(db)? {}\n\t\twhile self.enact_logs(false)? {}\n\t\tself.flush_logs(0)?;\n\t\twhile self.enact_logs(false)? {}\n\t\tself.clean_all_logs()?;", "\t\twhile self.process_commits(db)? {}\n\t\twhile self.enact_logs(false)? {}\n\t\tself.clean_all_logs()?;", {'C03': ['2b drain-sequence']})
m('19-log_worker-exits-on-shutdown', 'src/db.rs', "\t\twhile !db.shutdown.load(Ordering::SeqCst) || more_commits {", "\t\twhile !db.shutdown.load(Ordering::SeqCst) {", {'C03': ['3d keeps-going-after-shutdown db::Db::log_worker']})
# ---- C05
m('20-two-guards-in-end_record', 'src/log.rs', "\t\tlet mut total_value = 0;\n\t\tfor (id, overlay) in values.into_iter() {", "\t\tdrop(overlays);\n\t\tlet mut overlays = self.overlays.write();\n\t\tlet mut total_value = 0;\n\t\tfor (id, overlay) in values.into_iter() {", {'C05': ['1e one-guard-over-log-publication']})
m('22-value-before-key-compare', 'src/table.rs', "\t\t\t\t\t\tif !k.compare(&to_fetch) {", "\t\t\t\t\t\tif !k.compare(&to_fetch) && self.db_version == 0 {", {'C05': ['5b value-only-after-key-match']})
# ---- C08
m('26-new-error-after-publish', 'src/db.rs', '\t\t\t\t&mut overlay[*c as usize].btree_indexed,\n\t\t\t\trecord_id,\n\t\t\t\t&mut bytes,\n\t\t\t\t&self.options,\n\t\t\t);\n\t\t}\n\n\t\tlet commit = Commit { id: record_id, changeset: commit, bytes };\n\n\t\tlog::debug!(\n\t\t\ttarget: "parity-db",\n\t\t\t"Queued commit {}, {} bytes",',
  '\t\t\t\t&mut overlay[*c as usize].btree_indexed,\n\t\t\t\trecord_id,\n\t\t\t\t&mut bytes,\n\t\t\t\t&self.options,\n\t\t\t);\n\t\t}\n\t\tif bytes > MAX_COMMIT_QUEUE_BYTES * 64 {\n\t\t\treturn Err(Error::InvalidInput("Commit too large".into()))\n\t\t}\n\n\t\tlet commit = Commit { id: record_id, changeset: commit, bytes };\n\n\t\tlog::debug!(\n\t\t\ttarget: "parity-db",\n\t\t\t"Queued commit {}, {} bytes",',
  {'C08': ['copy_to_overlay -> Err(InvalidInput)']})
# ---- C12
m('32-no-log-sync', 'src/log.rs', "\t\t\t\t\ttry_io!(file.sync_data());\n", "", {'C12': ['1c sync-before-handover']})
m('33-handover-from-end_record', 'src/log.rs', "\t\tappending.size += bytes;\n\t\tself.dirty.store(true, Ordering::Relaxed);", "\t\tappending.size += bytes;\n\t\tif bytes == u64::MAX {\n\t\t\tif let Some(a) = self.appending.write().take() {\n\t\t\t\tif let Ok(f) = a.file.into_inner() {\n\t\t\t\t\tself.read_queue.write().push_back((a.id, f));\n\t\t\t\t}\n\t\t\t}\n\t\t}\n\t\tself.dirty.store(true, Ordering::Relaxed);",
  {'C12': ['1a read_queue-producers']})
m('34-flush-after-truncate', 'src/db.rs', "\t\t\tif self.options.sync_data {\n\t\t\t\tfor c in self.columns.iter() {\n\t\t\t\t\tc.flush()?;\n\t\t\t\t}\n\t\t\t}\n\t\t\tself.log.clean_logs(num_cleanup - keep_logs)?", "\t\t\tlet r = self.log.clean_logs(num_cleanup - keep_logs)?;\n\t\t\tif self.options.sync_data {\n\t\t\t\tfor c in self.columns.iter() {\n\t\t\t\t\tc.flush()?;\n\t\t\t\t}\n\t\t\t}\n\t\t\tr",
  {'C12': ['2b flush-loop-before-truncate db::DbInner::clean_logs']})
m('35-no-sync_all-after-truncate', 'src/log.rs', "\t\t\tfile.sync_all().map_err(Error::Io)?;\n", "", {'C12': ['3b truncate-synced-before-reuse']})
m('36-no-old-map-flush', 'src/file.rs', "\t\t\t\t\ttry_io!(old_map.flush());\n", "\t\t\t\t\tdrop(old_map);\n", {'C12': ['4b old-map-flushed']})
m('37-flush-skips-index', 'src/column.rs', "\t\tlet tables = self.tables.read();\n\t\ttables.index.flush()?;\n\t\tfor t in tables.value.iter() {\n\t\t\tt.flush()?;", "\t\tlet tables = self.tables.read();\n\t\tfor t in tables.value.iter() {\n\t\t\tt.flush()?;", {'C12': ['2e hash-flush-index']})
# ---- C13
m('38-insertvalue-no-column-bound', 'src/db.rs', "\t\t\t\t\t\t\tLogAction::InsertValue(insertion) => {\n\t\t\t\t\t\t\t\tlet col = insertion.table.col() as usize;\n\t\t\t\t\t\t\t\tif let Err(e) = self.columns.get(col).map_or_else(\n\t\t\t\t\t\t\t\t\t|| Err(Error::Corruption(format!(\"Invalid column id {col}\"))),\n\t\t\t\t\t\t\t\t\t|col| {\n\t\t\t\t\t\t\t\t\t\tcol.validate_plan(\n\t\t\t\t\t\t\t\t\t\t\tLogAction::InsertValue(insertion),\n\t\t\t\t\t\t\t\t\t\t\t&mut reader,\n\t\t\t\t\t\t\t\t\t\t)\n\t\t\t\t\t\t\t\t\t},\n\t\t\t\t\t\t\t\t) {",
  "\t\t\t\t\t\t\tLogAction::InsertValue(insertion) => {\n\t\t\t\t\t\t\t\tlet col = insertion.table.col() as usize;\n\t\t\t\t\t\t\t\tif let Err(e) = self.columns[col].validate_plan(\n\t\t\t\t\t\t\t\t\tLogAction::InsertValue(insertion),\n\t\t\t\t\t\t\t\t\t&mut reader,\n\t\t\t\t\t\t\t\t) {",
  {'C13': ['3b column-id-validated InsertValue']})
m('39-new-unchecked-slice-in-validator', 'src/ref_count.rs', "\t\tlog.read(&mut mask_buf)?;\n\t\tlet mut mask = u64::from_le_bytes(mask_buf);\n\t\tif mask >> CHUNK_ENTRIES != 0 {", "\t\tlog.read(&mut mask_buf)?;\n\t\tlet mut mask = u64::from_le_bytes(mask_buf);\n\t\tlog::trace!(\"first {:?}\", &EMPTY_CHUNK.0[..(mask as usize) & 0xfff]);\n\t\tif mask >> CHUNK_ENTRIES != 0 {",
  {'C13': ['unlisted ref_count::RefCountTable::validate_plan']})
# ---- C15
m('42-commit-no-signal', 'src/db.rs', "\t\tqueue.bytes += bytes;\n\t\tself.log_worker_wait.signal();\n\t\tOk(())\n\t}\n\n\tfn defer_commit(", "\t\tqueue.bytes += bytes;\n\t\tOk(())\n\t}\n\n\tfn defer_commit(", {'C15': ['1a commit_raw-wakes-log-worker']})
m('43-store_err-no-notify', 'src/db.rs', "\t\t\t\tself.shutdown();\n\t\t\t}\n\t\t\tself.commit_queue_full_cv.notify_all();", "\t\t\t\tself.shutdown();\n\t\t\t}", {'C15': ['1s error-wakes-throttled-committers']})
m('44-worker-result-dropped', 'src/db.rs', "\t\t\t\tlog_worker_db.store_err(Self::log_worker(log_worker_db.clone()))", "\t\t\t\tlet _ = Self::log_worker(log_worker_db.clone());", {'C15': ['4a worker-result-stored'], 'C16': ['1 dropped']})
# ---- C16
m('46-sync-result-dropped', 'src/log.rs', "\t\t\t\t\ttry_io!(file.sync_data());\n", "\t\t\t\t\tlet _ = file.sync_data();\n", {'C16': ['1 dropped log::Log::flush_one'], 'C12': ['1d handover-only-if-sync-ok']})
m('47-enact-in-error-shutdown', 'src/db.rs', "\t\t\t\t// Enacted logs may only be truncated once the tables are flushed.\n\t\t\t\tself.clean_all_logs()?;", "\t\t\t\twhile self.enact_logs(false)? {}\n\t\t\t\tself.clean_all_logs()?;", {'C16': ['2e no-stage-reentered-after-error']})
m('48-end_record-error-logged-only', 'src/db.rs', "\t\t\t\tlet bytes = self.log.end_record(l)?;\n\t\t\t\tlet mut logged_bytes = self.log_queue_wait.work.lock();\n\t\t\t\t*logged_bytes += bytes as i64;\n\t\t\t\tself.flush_worker_wait.signal();\n\t\t\t\tbytes",
  "\t\t\t\tlet bytes = match self.log.end_record(l) {\n\t\t\t\t\tOk(b) => b,\n\t\t\t\t\tErr(e) => {\n\t\t\t\t\t\tlog::warn!(target: \"parity-db\", \"end_record: {:?}\", e);\n\t\t\t\t\t\t0\n\t\t\t\t\t},\n\t\t\t\t};\n\t\t\t\tlet mut logged_bytes = self.log_queue_wait.work.lock();\n\t\t\t\t*logged_bytes += bytes as i64;\n\t\t\t\tself.flush_worker_wait.signal();\n\t\t\t\tbytes",
  {'C16': ['1 local db::DbInner::process_commits']})
# ---- C18
m('54-metadata-before-lock', 'src/db.rs', "\t\tlock_file.try_lock_exclusive().map_err(Error::Locked)?;\n\n\t\tlet metadata = options.load_and_validate_metadata(opening_mode == OpeningMode::Create)?;", "\t\tlet metadata = options.load_and_validate_metadata(opening_mode == OpeningMode::Create)?;\n\t\tlock_file.try_lock_exclusive().map_err(Error::Locked)?;\n",
  {'C18': ['1b lock-before-any-file-access']})
m('56-lock-error-ignored', 'src/db.rs', "\t\tlock_file.try_lock_exclusive().map_err(Error::Locked)?;", "\t\tlock_file.try_lock_exclusive().map_err(Error::Locked).ok();", {'C18': ['1f continue-only-if-locked'], 'C16': ['1 dropped db::DbInner::open']})

# behaviour-preserving controls: must stay silent everywhere
CONTROLS = []
def c(name, file, old, new, regex=False):
    CONTROLS.append(dict(name=name, file=file, old=old, new=new, regex=regex))
c('ctl-extract-sync-helper', 'src/log.rs', "\t\t\t\t\ttry_io!(file.sync_data());\n", "\t\t\t\t\tSelf::sync_file(&file)?;\n")
c('ctl-map_err-instead-of-try_io', 'src/log.rs', "\t\t\ttry_io!(file.set_len(0));", "\t\t\tfile.set_len(0).map_err(Error::Io)?;")
c('ctl-extra-logging', 'src/db.rs', "\t\tself.log_worker_wait.signal();\n\t\tOk(())\n\t}\n\n\tfn defer_commit(", "\t\tlog::trace!(target: \"parity-db\", \"signalling\");\n\t\tself.log_worker_wait.signal();\n\t\tOk(())\n\t}\n\n\tfn defer_commit(")
c('ctl-rename-local', 'src/db.rs', "\t\tlet has_flushed = self.log.flush_one(min_log_size)?;\n\t\tif has_flushed {\n\t\t\tself.commit_worker_wait.signal();\n\t\t}\n\t\tOk(has_flushed)", "\t\tlet flushed_any = self.log.flush_one(min_log_size)?;\n\t\tif flushed_any {\n\t\t\tself.commit_worker_wait.signal();\n\t\t}\n\t\tOk(flushed_any)")
EXTRA_FILES = {
    'ctl-extract-sync-helper': ('src/log.rs', "\tfn log_path(root: &std::path::Path, id: u32) -> std::path::PathBuf {", "\tfn sync_file(file: &std::fs::File) -> Result<()> {\n\t\ttry_io!(file.sync_data());\n\t\tOk(())\n\t}\n\n\tfn log_path(root: &std::path::Path, id: u32) -> std::path::PathBuf {"),
}

# ---- C17
m('49-log-open-before-metadata', 'src/db.rs', "\t\tlet metadata = options.load_and_validate_metadata(opening_mode == OpeningMode::Create)?;\n\t\tlet mut columns = Vec::with_capacity(metadata.columns.len());\n\t\tlet mut commit_overlay = Vec::with_capacity(metadata.columns.len());\n\t\tlet log = Log::open(options)?;",
  "\t\tlet log = Log::open(options)?;\n\t\tlet metadata = options.load_and_validate_metadata(opening_mode == OpeningMode::Create)?;\n\t\tlet mut columns = Vec::with_capacity(metadata.columns.len());\n\t\tlet mut commit_overlay = Vec::with_capacity(metadata.columns.len());", {'C17': ['1b metadata-validated-before-log-scan']})
m('50-write-metadata-without-create', 'src/options.rs', "\t\t} else if create {\n\t\t\tlet s: Salt", "\t\t} else if create || self.salt.is_some() {\n\t\t\tlet s: Salt", {'C17': ['1g write-only-with-create']})
m('51-key-renamed-on-writer-side', 'src/options.rs', "\"preimage: {}, uniform: {}, refc: {}, compression", "\"preimage: {}, uniform: {}, ref_counted: {}, compression", {'C17': ['3c writer-reader-agree']})
m('51b-keys-swapped-in-reader', 'src/options.rs', "\t\tlet multitree = vals.get(\"multitree\").and_then(|c| c.parse().ok()).unwrap_or(false);\n\t\tlet append_only = vals.get(\"append_only\").and_then(|c| c.parse().ok()).unwrap_or(false);",
  "\t\tlet multitree = vals.get(\"append_only\").and_then(|c| c.parse().ok()).unwrap_or(false);\n\t\tlet append_only = vals.get(\"multitree\").and_then(|c| c.parse().ok()).unwrap_or(false);", {'C17': ['3c writer-reader-agree']})
m('53-predicate-without-separator', 'src/index.rs', "\t\tname.starts_with(&format!(\"index_{col:02}_\"))", "\t\tname.starts_with(&format!(\"index_{col:02}\"))", {'C17': ['4e column-number-delimited']})
m('53b-drop_files-other-column', 'src/column.rs', "\t\t\t\tif crate::index::TableId::is_file_name(column, file) ||", "\t\t\t\tif crate::index::TableId::is_file_name(column / 10, file) ||", {'C17': []})
m('49b-reset-without-precheck', 'src/db.rs', "\t\tlet salt = Self::precheck_column_operation(options)?;\n\t\tSelf::remove_column_files(options, index)?;\n", "\t\tSelf::remove_column_files(options, index)?;\n\t\tlet salt = Self::precheck_column_operation(options)?;\n", {'C17': ['4i open-before-change db::Db::reset_column']})

# ---- C11
m('30-no-is_locked-deferral', 'src/db.rs', "\t\t\t\t\t\t\t\t\tif let Some(reader) = reader {\n\t\t\t\t\t\t\t\t\t\tif reader.is_locked() {\n\t\t\t\t\t\t\t\t\t\t\ttree_active = true;\n\t\t\t\t\t\t\t\t\t\t}\n\t\t\t\t\t\t\t\t\t}\n\t\t\t\t\t\t\t\t}\n\t\t\t\t\t\t\t\tif tree_active {\n\t\t\t\t\t\t\t\t\tdefer = true;",
  "\t\t\t\t\t\t\t\t\tif let Some(_reader) = reader {\n\t\t\t\t\t\t\t\t\t\ttree_active = false;\n\t\t\t\t\t\t\t\t\t}\n\t\t\t\t\t\t\t\t}\n\t\t\t\t\t\t\t\tif tree_active {\n\t\t\t\t\t\t\t\t\tdefer = true;", {'C11': ['1b deferred-when-reader-locked']})
m('31-clean-before-recopy-in-defer', 'src/db.rs', "\t\t\tlet mut bytes = 0;\n\n\t\t\tfor (c, indexed) in &commit.indexed {\n\t\t\t\tindexed.copy_to_overlay(\n\t\t\t\t\t&mut overlay[*c as usize],\n\t\t\t\t\trecord_id,\n\t\t\t\t\t&mut bytes,\n\t\t\t\t\t&self.options,\n\t\t\t\t);\n\t\t\t}\n\n\t\t\tfor (c, iterset) in &commit.btree_indexed {\n\t\t\t\titerset.copy_to_overlay(\n\t\t\t\t\t&mut overlay[*c as usize].btree_indexed,\n\t\t\t\t\trecord_id,\n\t\t\t\t\t&mut bytes,\n\t\t\t\t\t&self.options,\n\t\t\t\t);\n\t\t\t}\n\n\t\t\t{\n\t\t\t\t// Cleanup the commit overlay with old id.\n\t\t\t\tfor (c, key_values) in commit.indexed.iter() {\n\t\t\t\t\tkey_values.clean_overlay(&mut overlay[*c as usize], old_id);\n\t\t\t\t}",
  "\t\t\tlet mut bytes = 0;\n\n\t\t\tfor (c, key_values) in commit.indexed.iter() {\n\t\t\t\tkey_values.clean_overlay(&mut overlay[*c as usize], old_id);\n\t\t\t}\n\t\t\tfor (c, indexed) in &commit.indexed {\n\t\t\t\tindexed.copy_to_overlay(\n\t\t\t\t\t&mut overlay[*c as usize],\n\t\t\t\t\trecord_id,\n\t\t\t\t\t&mut bytes,\n\t\t\t\t\t&self.options,\n\t\t\t\t);\n\t\t\t}\n\n\t\t\tfor (c, iterset) in &commit.btree_indexed {\n\t\t\t\titerset.copy_to_overlay(\n\t\t\t\t\t&mut overlay[*c as usize].btree_indexed,\n\t\t\t\t\trecord_id,\n\t\t\t\t\t&mut bytes,\n\t\t\t\t\t&self.options,\n\t\t\t\t);\n\t\t\t}\n\n\t\t\t{",
  {'C11': ['retag-before-untag'], 'C01': ['retag-before-untag']})
# ---- C09 / C10 / C07 / C20
m('27-search-only-current-index', 'src/column.rs', "\t\tfor entry in &reindex.queue {\n\t\t\tif let ReindexEntry::Index(index) = entry {\n\t\t\t\tif let Some(r) = Self::search_index(key, index, tables, log)? {\n\t\t\t\t\treturn Ok(Some(r))\n\t\t\t\t}\n\t\t\t}\n\t\t}\n\t\tOk(None)", "\t\tlet _ = reindex;\n\t\tOk(None)", {'C09': ['1wa anchors']})
m('28-drop-file-without-log-record', 'src/column.rs', "\t\t\t\t\t\tif source_index == source.id.total_chunks() {\n\t\t\t\t\t\t\tlog::info!(target: \"parity-db\", \"Completed reindex {} into {}\", source.id, tables.index.id);\n\t\t\t\t\t\t\tdrop_index = Some(source.id);\n\t\t\t\t\t\t}",
  "\t\t\t\t\t\tif source_index + 1 >= source.id.total_chunks() {\n\t\t\t\t\t\t\tlog::info!(target: \"parity-db\", \"Completed reindex {} into {}\", source.id, tables.index.id);\n\t\t\t\t\t\t\tdrop_index = Some(source.id);\n\t\t\t\t\t\t}", {'C09': ['2o drop_index-only-when-source-exhausted']})
m('29-dec-ref-before-reading-children', 'src/db.rs', "\t\t\tlet node = guard.get_node_children(*address)?;\n\t\t\tlet (remains, _outcome) = column.write_address_dec_ref_plan(*address, writer)?;", "\t\t\tlet (remains, _outcome) = column.write_address_dec_ref_plan(*address, writer)?;\n\t\t\tlet node = guard.get_node_children(*address)?;", {'C10': ['4a children-read-before-node-can-be-freed']})
m('25-mirror-counted-dereference', 'src/db.rs', "\t\t\t\t\t// Don't add removed ref-counted values to overlay.\n\t\t\t\t\tif !ref_counted {\n\t\t\t\t\t\toverlay.indexed.insert(*k, (record_id, None));\n\t\t\t\t\t}", "\t\t\t\t\t{\n\t\t\t\t\t\toverlay.indexed.insert(*k, (record_id, None));\n\t\t\t\t\t}", {'C07': ['1b removal-mirrored-only-if-not-counted db::IndexedChangeSet']})
m('40-clear_slot-no-dirty-header', 'src/table.rs', "\t\tself.last_removed.store(index, Ordering::Relaxed);\n\t\tself.dirty_header.store(true, Ordering::Relaxed);\n", "\t\tself.last_removed.store(index, Ordering::Relaxed);\n", {'C10': ['5c header-marked-dirty table::ValueTable::clear_slot']})

# ---- C04
m('08-sort-unstable', 'src/btree/mod.rs', "\t\t\tself.changes.sort();", "\t\t\tself.changes.sort_unstable();", {'C04': ['1b stable-sort']})
m('09-ord-uses-variant', 'src/db.rs', "\t\tself.key().cmp(other.key())\n\t}", "\t\tself.key().cmp(other.key()).then(matches!(self, Operation::Set(..)).cmp(&matches!(other, Operation::Set(..))))\n\t}", {'C04': ['1e ordering-by-key-only']})
m('10-no-tree-refresh-in-next_backend', 'src/btree/iter.rs', "\t\tlet BtreeIterBackend(tree, iter) = &mut self.iter;\n\t\tif record_id != tree.record_id {\n\t\t\tlet new_tree = col.with_locked(|btree| BTree::open(btree, log, record_id))?;\n\t\t\t*tree = new_tree;\n\t\t\tmatch &self.last_key {",
  "\t\tlet BtreeIterBackend(tree, iter) = &mut self.iter;\n\t\tif record_id > tree.record_id + 1 {\n\t\t\tlet new_tree = col.with_locked(|btree| BTree::open(btree, log, record_id))?;\n\t\t\t*tree = new_tree;\n\t\t\tmatch &self.last_key {", {'C04': ["2b tree-refreshed-when-record-id-differs btree::iter::BTreeIterator::<'a>::next_backend"]})
# ---- C06
m('23-marker-collides-with-size', 'src/table.rs', "const MULTIHEAD_COMPRESSED: &[u8] = &[0xfd, 0x7f];", "const MULTIHEAD_COMPRESSED: &[u8] = &[0xf6, 0x7f];", {'C06': ['2']})
m('24-size-tiers-not-increasing', 'src/column.rs', "\t32, 33, 34, 35, 36, 37, 38, 39, 40, 41, 42, 43, 44, 46,", "\t32, 33, 34, 35, 36, 37, 38, 39, 40, 41, 42, 44, 44, 46,", {'C06': ['1']})
# ---- C14
m('41-no-index-remove-on-delete', 'src/column.rs', "\t\t\t\tindex.write_remove_plan(key, sub_index, log)?;\n\t\t\t\tOk((PlanOutcome::Written, None))", "\t\t\t\tlet _ = (index, sub_index);\n\t\t\t\tOk((PlanOutcome::Written, None))", {'C14': ['3']})

# ---- C15 lock order
m('45-overlay-before-queue-lock', 'src/db.rs', "\tfn commit_raw(&self, commit: CommitChangeSet) -> Result<()> {\n\t\tlet mut queue = self.commit_queue.lock();\n", "\tfn commit_raw(&self, commit: CommitChangeSet) -> Result<()> {\n\t\tlet mut overlay = self.commit_overlay.write();\n\t\tlet mut queue = self.commit_queue.lock();\n",
  {'C15': ['5b cycle']}, more=[("\t\tlet mut overlay = self.commit_overlay.write();\n\n\t\tqueue.record_id += 1;", "\t\tqueue.record_id += 1;")])

# ---- C05 / C01: file reads shadowed by the log overlay
m('r1-file-read-ignores-overlay', 'src/table.rs', "\tpub fn read_next_part(&self, index: u64, log: &LogWriter) -> Result<Option<u64>> {\n\t\tlet mut buf = PartialEntry::new_uninit();\n\t\tif !log.value(self.id, index, buf.as_mut()) {\n\t\t\tself.file.read_at(buf.as_mut(), index * self.entry_size as u64)?;\n\t\t}",
  "\tpub fn read_next_part(&self, index: u64, log: &LogWriter) -> Result<Option<u64>> {\n\t\tlet mut buf = PartialEntry::new_uninit();\n\t\tlet _ = log;\n\t\tself.file.read_at(buf.as_mut(), index * self.entry_size as u64)?;", {'C05': ['6b overlay-first table::ValueTable::read_next_part'], 'C01': ['4sb overlay-first table::ValueTable::read_next_part']})

# ---- more behaviour-preserving controls
c('ctl-try_for_each-flush-loop', 'src/db.rs', "\t\t\tif self.options.sync_data {\n\t\t\t\tfor c in self.columns.iter() {\n\t\t\t\t\tc.flush()?;\n\t\t\t\t}\n\t\t\t}\n\t\t\tself.log.clean_logs(num_cleanup - keep_logs)?", "\t\t\tif self.options.sync_data {\n\t\t\t\tself.columns.iter().try_for_each(|c| c.flush())?;\n\t\t\t}\n\t\t\tself.log.clean_logs(num_cleanup - keep_logs)?")
c('ctl-rename-defer-flag', 'src/db.rs', r"\bdefer\b", "postpone", regex=True)
c('ctl-flush_one-early-return', 'src/log.rs', "\t\tif cur_size > min_size {\n\t\t\tif let Some(to_flush) = self.appending.write().take() {", "\t\tif cur_size <= min_size {\n\t\t\treturn Ok(false)\n\t\t}\n\t\t{\n\t\t\tif let Some(to_flush) = self.appending.write().take() {")
c('ctl-inline-clean_all_logs-in-open', 'src/db.rs', "\t\t\tdb.log.clear_replay_logs();\n\t\t\tdb.clean_all_logs()?;\n\t\t\tdb.log.kill_logs()?;", "\t\t\tdb.log.clear_replay_logs();\n\t\t\tfor c in db.columns.iter() {\n\t\t\t\tc.flush()?;\n\t\t\t}\n\t\t\tlet num_cleanup = db.log.num_dirty_logs();\n\t\t\tdb.log.clean_logs(num_cleanup)?;\n\t\t\tdb.log.kill_logs()?;")
c('ctl-publish-helper', 'src/db.rs', "\t\tlet mut bytes = 0;\n\t\tfor (c, indexed) in &commit.indexed {\n\t\t\tindexed.copy_to_overlay(\n\t\t\t\t&mut overlay[*c as usize],\n\t\t\t\trecord_id,\n\t\t\t\t&mut bytes,\n\t\t\t\t&self.options,\n\t\t\t);\n\t\t}\n\n\t\tfor (c, iterset) in &commit.btree_indexed {\n\t\t\titerset.copy_to_overlay(\n\t\t\t\t&mut overlay[*c as usize].btree_indexed,\n\t\t\t\trecord_id,\n\t\t\t\t&mut bytes,\n\t\t\t\t&self.options,\n\t\t\t);\n\t\t}\n\n\t\tlet commit = Commit { id: record_id, changeset: commit, bytes };\n\n\t\tlog::debug!(\n\t\t\ttarget: \"parity-db\",\n\t\t\t\"Queued commit {}, {} bytes\",",
  "\t\tlet bytes = self.publish(&mut overlay, &commit, record_id);\n\n\t\tlet commit = Commit { id: record_id, changeset: commit, bytes };\n\n\t\tlog::debug!(\n\t\t\ttarget: \"parity-db\",\n\t\t\t\"Queued commit {}, {} bytes\",")
EXTRA_FILES['ctl-publish-helper'] = ('src/db.rs', "\tfn defer_commit(\n\t\t&self,\n\t\tmut queue: MutexGuard<CommitQueue>,", "\tfn publish(&self, overlay: &mut Vec<CommitOverlay>, commit: &CommitChangeSet, record_id: u64) -> usize {\n\t\tlet mut bytes = 0;\n\t\tfor (c, indexed) in &commit.indexed {\n\t\t\tindexed.copy_to_overlay(&mut overlay[*c as usize], record_id, &mut bytes, &self.options);\n\t\t}\n\t\tfor (c, iterset) in &commit.btree_indexed {\n\t\t\titerset.copy_to_overlay(&mut overlay[*c as usize].btree_indexed, record_id, &mut bytes, &self.options);\n\t\t}\n\t\tbytes\n\t}\n\n\tfn defer_commit(\n\t\t&self,\n\t\tmut queue: MutexGuard<CommitQueue>,")
