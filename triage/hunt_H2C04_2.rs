// C04 / second round, finding 2 (minor, option combination).
//
// `ColumnOptions { btree_index: true, multitree: true, .. }` passes `ColumnOptions::is_valid` and
// `Db::open_or_create`. Such a column is a btree column in every respect (commits go to the btree,
// `Db::iter` works, the multitree operations are refused with "Not a HashColumn"), except that
// `Db::get` and `Db::get_size` refuse to answer: they test the `multitree` flag before they look at
// the kind of the column (src/db.rs `DbInner::get` / `get_size`).
//
//   cargo test --offline --features instrumentation --test hunt_H2C04_2
#![cfg(feature = "instrumentation")]
use parity_db::{ColumnOptions, Db, Options};

#[test]
fn point_read_of_a_btree_column_with_the_multitree_flag() {
	let dir = tempfile::tempdir().unwrap();
	let mut options = Options::with_columns(dir.path(), 1);
	options.columns[0] = ColumnOptions { btree_index: true, multitree: true, ..Default::default() };
	assert!(options.columns[0].is_valid());
	options.with_background_thread = false;
	let db = Db::open_or_create(&options).unwrap();
	db.commit(vec![(0u8, b"key".to_vec(), Some(b"value".to_vec()))]).unwrap();

	// The column is an ordered map: the iterator sees the key, before and after the commit is processed.
	for processed in [false, true] {
		if processed {
			db.process_commits().unwrap();
		}
		let mut iter = db.iter(0).unwrap();
		iter.seek_to_first().unwrap();
		assert_eq!(iter.next().unwrap(), Some((b"key".to_vec(), b"value".to_vec())));

		// The point read of the same key has to give the same answer.
		let got = db.get(0, b"key");
		assert!(
			matches!(&got, Ok(Some(v)) if v == b"value"),
			"get (processed = {processed}) of a key the iterator returns: {got:?}"
		);
		let size = db.get_size(0, b"key");
		assert!(matches!(size, Ok(Some(5))), "get_size: {size:?}");
	}
}
