// C16: "If any file operation of the pipeline fails (at any point, and from then on), the failure
// is reported ..., no panic occurs, and after the fault is gone reopening yields a prefix of the
// committed transactions" - with and without background threads.
//
// Multitree column, no background threads (the stepping API of the `instrumentation` feature).
//
//   T0  InsertTree(A) with a child node X            -> logged (process_commits), not yet enacted
//   T1  InsertTree(B) that shares X (NodeRef::Existing)
//   T2  DereferenceTree(A)
//
// A persistent I/O fault (the crate's own `set_number_of_allowed_io_operations`) is injected at
// the n-th file operation of the `process_commits` call that logs T1, for every n. The call
// returns the error. Then the database is dropped (fault still present) and reopened (fault gone).
//
// Expected: no panic, the reopened database holds a prefix of T0, T1, T2.
// Observed: for the fault indices that hit the log write itself, `drop(db)` panics at
// src/column.rs:1359 (`called Option::unwrap() on a None value`, write_address_dec_ref_plan).
//
// The second test shows the same with a real error instead of the crate's fault counter: every
// write(2) fails with ENOSPC (disk full; interposed in this test binary), T0 has gone through the
// whole pipeline before.
//
// Run: cargo test --offline --features instrumentation --test hunt_H4C16_1 -- --test-threads=1

use parity_db::{
	set_number_of_allowed_io_operations as set_io, Db, NewNode, NodeRef, Operation, Options,
};
use std::panic::{catch_unwind, AssertUnwindSafe};

fn options(path: &std::path::Path) -> Options {
	let mut o = Options::with_columns(path, 1);
	o.columns[0].multitree = true;
	o.columns[0].allow_direct_node_access = true;
	o.with_background_thread = false;
	o
}

fn key(n: u8) -> Vec<u8> {
	vec![n; 32]
}

type Tree = (Vec<u8>, Vec<Vec<u8>>); // root data, data of the children

fn read_tree(db: &Db, k: &[u8]) -> Option<Tree> {
	let (data, children) = db.get_root(0, k).expect("get_root")?;
	let mut c = Vec::new();
	for a in children {
		let (d, _) = db.get_node(0, a).expect("get_node").expect("a child of a present root is missing");
		c.push(d);
	}
	Some((data, c))
}

#[test]
fn drop_after_a_failed_log_write_does_not_panic() {
	let tree_a: Tree = (b"root A".to_vec(), vec![vec![b'X'; 100]]);
	let tree_b: Tree = (b"root B".to_vec(), vec![vec![b'W'; 60], vec![b'X'; 100]]);

	let mut panics = Vec::new();
	let mut not_prefix = Vec::new();
	let mut faults = 0;
	for n in 0..10_000usize {
		let dir = tempfile::tempdir().unwrap();
		let opts = options(dir.path());
		set_io(usize::MAX);
		let db = Db::open_or_create(&opts).unwrap();

		// T0
		let a = NewNode {
			data: tree_a.0.clone(),
			children: vec![NodeRef::New(NewNode { data: tree_a.1[0].clone(), children: vec![] })],
		};
		db.commit_changes(vec![(0u8, Operation::InsertTree(key(1), a))]).unwrap();
		db.process_commits().unwrap();
		assert_eq!(read_tree(&db, &key(1)), Some(tree_a.clone()));
		let x = db.get_root(0, &key(1)).unwrap().unwrap().1[0];

		// T1, T2 are accepted
		let b = NewNode {
			data: tree_b.0.clone(),
			children: vec![
				NodeRef::New(NewNode { data: tree_b.1[0].clone(), children: vec![] }),
				NodeRef::Existing(x),
			],
		};
		db.commit_changes(vec![(0u8, Operation::InsertTree(key(2), b))]).unwrap();
		db.commit_changes(vec![(0u8, Operation::DereferenceTree(key(1)))]).unwrap();

		// the n-th file operation of the log stage fails, and every one after it
		set_io(n);
		let r = db.process_commits(); // T1
		if r.is_ok() {
			// n is beyond the operations of this step: the sweep is complete
			set_io(usize::MAX);
			drop(db);
			break
		}
		faults += 1;
		// the failure was reported by the failing call; shut down with the fault still present
		let dropped = catch_unwind(AssertUnwindSafe(move || drop(db)));
		set_io(usize::MAX); // "after the fault is gone"
		if dropped.is_err() {
			panics.push(n);
		}

		let db = Db::open(&opts).expect("reopen");
		let state = (read_tree(&db, &key(1)), read_tree(&db, &key(2)));
		let prefixes = [
			(None, None),                                  // nothing
			(Some(tree_a.clone()), None),                  // T0
			(Some(tree_a.clone()), Some(tree_b.clone())),  // T0 T1
			(None, Some(tree_b.clone())),                  // T0 T1 T2
		];
		if !prefixes.contains(&state) {
			not_prefix.push(n);
		}
	}
	assert!(faults > 0);
	assert!(
		panics.is_empty() && not_prefix.is_empty(),
		"of {faults} fault indices of the log stage: Db::drop panicked for {panics:?}; \
		 reopened state is no prefix for {not_prefix:?}"
	);
}

// ---------------------------------------------------------------- a real errno: disk full

static DISK_FULL: std::sync::atomic::AtomicBool = std::sync::atomic::AtomicBool::new(false);

#[no_mangle]
pub unsafe extern "C" fn write(fd: i32, buf: *const std::ffi::c_void, n: usize) -> isize {
	use std::sync::atomic::{AtomicUsize, Ordering::SeqCst};
	static REAL: AtomicUsize = AtomicUsize::new(0);
	if fd > 2 && DISK_FULL.load(SeqCst) {
		*libc::__errno_location() = libc::ENOSPC;
		return -1
	}
	let mut p = REAL.load(SeqCst);
	if p == 0 {
		p = libc::dlsym(libc::RTLD_NEXT, "write\0".as_ptr() as *const _) as usize;
		REAL.store(p, SeqCst);
	}
	let f: unsafe extern "C" fn(i32, *const std::ffi::c_void, usize) -> isize = std::mem::transmute(p);
	f(fd, buf, n)
}

#[test]
fn drop_on_a_full_disk_does_not_panic() {
	use std::sync::atomic::Ordering::SeqCst;
	let tree_a: Tree = (b"root A".to_vec(), vec![vec![b'X'; 100]]);
	let tree_b: Tree = (b"root B".to_vec(), vec![vec![b'W'; 60], vec![b'X'; 100]]);
	let dir = tempfile::tempdir().unwrap();
	let opts = options(dir.path());
	let db = Db::open_or_create(&opts).unwrap();

	// T0 goes through the whole pipeline
	let a = NewNode {
		data: tree_a.0.clone(),
		children: vec![NodeRef::New(NewNode { data: tree_a.1[0].clone(), children: vec![] })],
	};
	db.commit_changes(vec![(0u8, Operation::InsertTree(key(1), a))]).unwrap();
	db.process_commits().unwrap();
	db.flush_logs().unwrap();
	db.enact_logs().unwrap();
	db.clean_logs().unwrap();
	let x = db.get_root(0, &key(1)).unwrap().unwrap().1[0];

	let b = NewNode {
		data: tree_b.0.clone(),
		children: vec![
			NodeRef::New(NewNode { data: tree_b.1[0].clone(), children: vec![] }),
			NodeRef::Existing(x),
		],
	};
	db.commit_changes(vec![(0u8, Operation::InsertTree(key(2), b))]).unwrap();
	db.commit_changes(vec![(0u8, Operation::DereferenceTree(key(1)))]).unwrap();

	DISK_FULL.store(true, SeqCst);
	let r = db.process_commits(); // T1
	assert!(r.is_err(), "the failure is reported by the failing call");
	// reads keep working
	assert_eq!(read_tree(&db, &key(1)), Some(tree_a.clone()));
	assert_eq!(read_tree(&db, &key(2)), Some(tree_b.clone()));

	let dropped = catch_unwind(AssertUnwindSafe(move || drop(db)));
	DISK_FULL.store(false, SeqCst);
	assert!(dropped.is_ok(), "Db::drop panicked on a full disk after the failed commit was reported");

	let db = Db::open(&opts).expect("reopen");
	assert_eq!(read_tree(&db, &key(1)), Some(tree_a));
	assert_eq!(read_tree(&db, &key(2)), None);
}
