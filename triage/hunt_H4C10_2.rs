// Property C10, second-round hunt (H4C10), finding 2.
//
// `InsertTree` walks the supplied `NewNode` recursively, twice (`HashColumn::prepare_node` /
// `prepare_children`, then `HashColumn::claim_node` / `claim_children_to_data`, src/column.rs) and
// `DbInner::commit_changes` finally drops the operation, which recurses a third time. All of it runs
// on the stack of the thread that calls `commit_changes`. A tree whose new nodes form a long chain
// (one child per node) is neither stored nor rejected with an error: the process dies with
// "thread ... has overflowed its stack" (SIGABRT). The removal of such a tree was made iterative
// (`write_dereference_children_plan`), the insertion was not.
//
// The test runs the insertion in a child process (the overflow can not be caught) on a thread with
// an 8 MiB stack - the default size of a main thread. The client code of the test never recurses: the
// chain is built bottom-up in a loop and read back level by level.
//
// Run: cargo test --offline --features instrumentation --test hunt_H4C10_2
// (fails in debug and with --release)

use parity_db::{ColumnOptions, Db, NewNode, NodeRef, Operation, Options};
use std::path::Path;

const STACK: usize = 8 * 1024 * 1024;

fn options(path: &Path) -> Options {
	let mut o = Options::with_columns(path, 1);
	o.columns[0] =
		ColumnOptions { multitree: true, allow_direct_node_access: true, ..Default::default() };
	o
}

// depth levels below the root, `width` leaves at the bottom
fn chain(depth: usize, width: usize) -> NewNode {
	let mut node = NewNode {
		data: b"bottom".to_vec(),
		children: (0..width)
			.map(|i| NodeRef::New(NewNode { data: (i as u32).to_le_bytes().to_vec(), children: vec![] }))
			.collect(),
	};
	for level in 0..depth {
		node = NewNode {
			data: (level as u32).to_le_bytes().to_vec(),
			children: vec![NodeRef::New(node)],
		};
	}
	node
}

fn child(path: &Path, depth: usize, width: usize) {
	let db = Db::open_or_create(&options(path)).unwrap();
	let tree = chain(depth, width);
	db.commit_changes(vec![(0, Operation::InsertTree(b"deep".to_vec(), tree))]).unwrap();
	// read back, level by level
	let (_, mut children) = db.get_root(0, b"deep").unwrap().expect("root");
	let mut levels = 0;
	while children.len() == 1 {
		let (_, c) = db.get_node(0, children[0]).unwrap().expect("node");
		children = c;
		levels += 1;
	}
	assert_eq!(levels, depth);
	assert_eq!(children.len(), width);
	db.commit_changes(vec![(0, Operation::DereferenceTree(b"deep".to_vec()))]).unwrap();
	drop(db);
	let db = Db::open(&options(path)).unwrap();
	assert!(db.get_root(0, b"deep").unwrap().is_none());
	assert_eq!(db.get_num_column_value_entries(0).unwrap(), 0);
}

fn run_in_child(test: &str, depth: usize, width: usize) -> (std::process::ExitStatus, String) {
	let dir = tempfile::tempdir().unwrap();
	let out = std::process::Command::new(std::env::current_exe().unwrap())
		.args([test, "--exact", "--nocapture", "--test-threads=1"])
		.env("H4C10_CHILD_DIR", dir.path())
		.env("H4C10_CHILD_DEPTH", depth.to_string())
		.env("H4C10_CHILD_WIDTH", width.to_string())
		.output()
		.unwrap();
	(out.status, String::from_utf8_lossy(&out.stderr).to_string())
}

fn maybe_child() -> bool {
	if let Ok(dir) = std::env::var("H4C10_CHILD_DIR") {
		let depth: usize = std::env::var("H4C10_CHILD_DEPTH").unwrap().parse().unwrap();
		let width: usize = std::env::var("H4C10_CHILD_WIDTH").unwrap().parse().unwrap();
		let path = std::path::PathBuf::from(dir).join("db");
		std::thread::Builder::new()
			.stack_size(STACK)
			.spawn(move || child(&path, depth, width))
			.unwrap()
			.join()
			.unwrap();
		return true
	}
	false
}

#[test]
fn a_tree_with_a_long_chain_of_new_nodes_can_be_inserted() {
	if maybe_child() {
		return
	}
	// Depths at which a plain recursive `drop` of the same `NewNode` on the same stack still works
	// (measured: up to 30_000 in debug, 200_000 in release builds); the insertion overflows from about
	// 7_000 (debug) / 25_000 (release) levels on.
	let depth = if cfg!(debug_assertions) { 20_000 } else { 60_000 };
	let (status, stderr) =
		run_in_child("a_tree_with_a_long_chain_of_new_nodes_can_be_inserted", depth, 2);
	let tail: Vec<&str> = stderr.lines().rev().take(4).collect();
	assert!(
		status.success(),
		"the process that inserted a tree with a chain of {depth} new nodes (8 MiB stack) died: {status:?}; \
		 last lines of its stderr: {tail:?}"
	);
}

#[test]
fn control_same_number_of_nodes_in_a_wide_tree() {
	if maybe_child() {
		return
	}
	// 255 levels, 255 leaves and some: the same order of nodes per commit is no problem when the
	// tree is not deep (several commits would be needed for exactly 100_000, this is about the shape).
	let (status, stderr) = run_in_child("control_same_number_of_nodes_in_a_wide_tree", 200, 255);
	assert!(status.success(), "control failed: {status:?} {stderr}");
}
