//! C20: a failure of the destination's background pipeline during the migration of one column is
//! forgotten when the next column is one that is only copied: `migrate` returns `Ok(())` and the
//! destination lacks most keys of the migrated column.
//!
//! Run: cargo test --offline --features instrumentation --test hunt_H2C20_1 -- --test-threads=1
//!
//! The fault is injected with the crate's own per-thread I/O fault counter
//! (`set_number_of_allowed_io_operations`). The counter is thread local and the destination is
//! written by background threads that `migrate` starts itself, so it is set from a `log::Log`
//! implementation: the logger runs on the thread that emits the message, here the log worker of
//! the destination when it announces "Processing commit 2".
//!
//! The test accepts both outcomes a correct implementation can have: `migrate` reports the failure,
//! or it returns `Ok` and the destination is complete.

#![cfg(feature = "instrumentation")]

use parity_db::{CompressionType, Db, Options};
use std::sync::atomic::{AtomicBool, AtomicUsize, Ordering};

static ARMED: AtomicBool = AtomicBool::new(false);
static INJECTED: AtomicUsize = AtomicUsize::new(0);
/// Number of the destination commit whose logging fails.
static FAIL_AT_COMMIT: AtomicUsize = AtomicUsize::new(0);

struct FaultLogger;

impl log::Log for FaultLogger {
	fn enabled(&self, _: &log::Metadata) -> bool {
		true
	}

	fn log(&self, record: &log::Record) {
		if !ARMED.load(Ordering::SeqCst) {
			return
		}
		let msg = format!("{}", record.args());
		// db.rs `process_commits`, emitted by the log worker of the destination (the source gets no
		// commits during a migration).
		let fail_at = format!("Processing commit {},", FAIL_AT_COMMIT.load(Ordering::SeqCst));
		if msg.starts_with(&fail_at) && INJECTED.fetch_add(1, Ordering::SeqCst) == 0 {
			// Every further I/O operation of this thread fails: the record can not be appended to
			// the write-ahead log of the destination.
			parity_db::set_number_of_allowed_io_operations(0);
		}
		if record.level() <= log::Level::Warn {
			eprintln!("[{}] {}", record.level(), msg);
		}
	}

	fn flush(&self) {}
}

static LOGGER: FaultLogger = FaultLogger;

const KEYS_COL0: u32 = 40_000; // 3 full batches of 10240 sets and 9280 more
const KEYS_COL1: u32 = 100;

fn key(i: u32) -> Vec<u8> {
	format!("key {i}").into_bytes()
}

fn value(c: u8, i: u32) -> Vec<u8> {
	format!("value {c} {i}").into_bytes()
}

fn count_present(options: &Options) -> (u32, u32) {
	let db = Db::open(options).unwrap();
	let c0 = (0..KEYS_COL0).filter(|i| db.get(0, &key(*i)).unwrap() == Some(value(0, *i))).count();
	let c1 = (0..KEYS_COL1).filter(|i| db.get(1, &key(*i)).unwrap() == Some(value(1, *i))).count();
	(c0 as u32, c1 as u32)
}

fn run(inject: bool, fail_at_commit: usize, force: &[u8], overwrite: bool) {
	static INIT: std::sync::Once = std::sync::Once::new();
	INIT.call_once(|| {
		log::set_logger(&LOGGER).unwrap();
		log::set_max_level(log::LevelFilter::Debug);
	});

	let dir = tempfile::tempdir().unwrap();
	let source_dir = dir.path().join("source");
	let dest_dir = dir.path().join("dest");

	let source_options = Options::with_columns(&source_dir, 2);
	{
		let db = Db::open_or_create(&source_options).unwrap();
		db.commit((0..KEYS_COL0).map(|i| (0u8, key(i), Some(value(0, i))))).unwrap();
		db.commit((0..KEYS_COL1).map(|i| (1u8, key(i), Some(value(1, i))))).unwrap();
	}
	assert_eq!(count_present(&source_options), (KEYS_COL0, KEYS_COL1));

	// Column 0 changes its compression: it is selected automatically. Column 1 is only copied.
	let mut dest_options = Options::with_columns(&dest_dir, 2);
	dest_options.columns[0].compression = CompressionType::Lz4;

	INJECTED.store(0, Ordering::SeqCst);
	FAIL_AT_COMMIT.store(fail_at_commit, Ordering::SeqCst);
	ARMED.store(inject, Ordering::SeqCst);
	let result = parity_db::migrate(&source_dir, dest_options.clone(), overwrite, force);
	ARMED.store(false, Ordering::SeqCst);
	assert_eq!(INJECTED.load(Ordering::SeqCst) > 0, inject, "fault injection");

	if !overwrite {
		// The source is never touched.
		assert_eq!(count_present(&source_options), (KEYS_COL0, KEYS_COL1));
	}

	match result {
		Err(e) => eprintln!("migrate reported the failure: {e:?}"),
		Ok(()) => {
			// With `overwrite` the result replaces the column files of the source.
			let mut result_options = dest_options.clone();
			if overwrite {
				result_options.path = source_dir.clone();
			}
			let present = count_present(&result_options);
			assert_eq!(
				present,
				(KEYS_COL0, KEYS_COL1),
				"migrate returned Ok(()) but the result is incomplete (keys readable in column 0, column 1)"
			);
		},
	}
}

/// Column 0 is migrated (4 commits into the destination: 3 x 10240 sets while walking, the other 9280
/// sets at the very end), column 1 is copied. Logging commit 2 fails; the handle of the destination
/// is replaced for the copy of column 1 and the failure is forgotten.
#[test]
fn background_failure_of_the_destination_is_forgotten() {
	run(true, 2, &[], false);
}

/// Both columns are migrated, the handle of the destination is never replaced. Logging the last
/// commit (number 4: 9280 sets of column 0, 100 sets of column 1) fails: it is processed after the last
/// `commit_raw` has returned, nobody looks at the handle any more.
#[test]
fn background_failure_after_the_last_commit_is_not_seen() {
	run(true, 4, &[1], false);
}

/// In-place migration of column 0. Logging its last commit (number 4, 9280 sets) fails after
/// `commit_raw` has returned; the handle is dropped and reopened "to flush logs", then the
/// incomplete column replaces the column of the source, whose files are deleted.
#[test]
fn background_failure_before_the_overwrite_loses_source_data() {
	run(true, 4, &[], true);
}

/// Control: the same migrations without the fault.
#[test]
fn control_without_fault() {
	run(false, 0, &[], false);
	run(false, 0, &[1], false);
	run(false, 0, &[], true);
}
