// HC02 finding 2: a multitree commit reserves its node slots in the value table at `commit()`
// time (ValueTable::claim_entries bumps `filled` in memory and marks the header dirty). The WAL
// record of an EARLIER commit, produced afterwards, then logs that table header, reserved slots
// included. If the process stops before the record of the reserving commit reaches the log, the
// recovered value table claims to hold entries that were never written.
//
// Run: cargo test --offline --features instrumentation --test hunt_HC02_2 -- --nocapture
#![cfg(feature = "instrumentation")]

use parity_db::{Db, NewNode, NodeRef, Operation, Options};
use std::path::Path;

fn options(path: &Path) -> Options {
	let mut o = Options::with_columns(path, 1);
	o.columns[0].multitree = true;
	o.columns[0].allow_direct_node_access = true;
	o.with_background_thread = false; // pipeline stages are driven by hand
	o.always_flush = true;
	o
}

fn leaf(b: u8) -> NodeRef {
	NodeRef::New(NewNode { data: vec![b; 10], children: vec![] })
}

fn copy_dir(from: &Path, to: &Path) {
	std::fs::create_dir_all(to).unwrap();
	for e in std::fs::read_dir(from).unwrap() {
		let e = e.unwrap();
		if e.file_name() == "lock" {
			continue
		}
		std::fs::copy(e.path(), to.join(e.file_name())).unwrap();
	}
}

// State of a database in which only T0 was ever committed, after a clean shutdown and reopen.
fn reference() -> u64 {
	let dir = tempfile::tempdir().unwrap();
	{
		let db = Db::open_or_create(&options(dir.path())).unwrap();
		db.commit_changes(vec![(0u8, t0())]).unwrap();
		db.process_commits().unwrap();
		db.flush_logs().unwrap();
		db.enact_logs().unwrap();
	}
	let db = Db::open(&options(dir.path())).unwrap();
	db.get_num_column_value_entries(0).unwrap()
}

fn t0() -> Operation<Vec<u8>, Vec<u8>> {
	Operation::InsertTree(b"root0".to_vec(), NewNode { data: vec![1; 10], children: vec![leaf(2)] })
}

fn t1() -> Operation<Vec<u8>, Vec<u8>> {
	Operation::InsertTree(
		b"root1".to_vec(),
		NewNode { data: vec![3; 10], children: vec![leaf(4), leaf(5), leaf(6)] },
	)
}

#[test]
fn crash_between_two_tree_commits_recovers_exactly_the_first() {
	let ref_entries = reference();
	println!("reference (T0 only): {} entries", ref_entries);

	let live = tempfile::tempdir().unwrap();
	let image = tempfile::tempdir().unwrap();
	{
		let db = Db::open_or_create(&options(live.path())).unwrap();
		db.commit_changes(vec![(0u8, t0())]).unwrap();
		db.commit_changes(vec![(0u8, t1())]).unwrap(); // queued, reserves three slots
		db.process_commits().unwrap(); // WAL record of T0 only
		db.flush_logs().unwrap();
		db.enact_logs().unwrap();
		// The process stops here: T0 is logged, synced and enacted, T1 never reached the log.
		copy_dir(live.path(), image.path());
	}

	let db = Db::open(&options(image.path())).expect("reopen");
	assert!(db.get_root(0, b"root0").unwrap().is_some(), "T0 must be present");
	assert!(db.get_root(0, b"root1").unwrap().is_none(), "T1 must be absent");

	let entries = db.get_num_column_value_entries(0).unwrap();
	println!("recovered: entries={entries}");
	assert_eq!(entries, ref_entries, "value entries after recovery (slots of T1 leaked)");
}
