use parity_db::{ColumnOptions, Db, NewNode, NodeRef, Operation, Options};
use std::path::Path;

fn opts(p: &Path, cols: Vec<ColumnOptions>) -> Options {
    let mut o = Options::with_columns(p, cols.len() as u8);
    o.columns = cols;
    o.with_background_thread = false;
    o.always_flush = true;
    o
}
fn copy_dir(from: &Path, to: &Path) {
    std::fs::create_dir_all(to).unwrap();
    for e in std::fs::read_dir(from).unwrap() {
        let e = e.unwrap();
        if e.file_name() == "lock" { continue }
        std::fs::copy(e.path(), to.join(e.file_name())).unwrap();
    }
}
fn recrc(b: &mut Vec<u8>) {
    // single record: [..body.., END(4), crc(4)]
    let n = b.len();
    let mut h = crc32fast::Hasher::new();
    h.update(&b[..n - 4]);
    let c = h.finalize();
    b[n - 4..].copy_from_slice(&c.to_le_bytes());
}
fn crash_image_with_one_commit() -> (tempfile::TempDir, Vec<u8>) {
    let d = tempfile::tempdir().unwrap();
    let o = opts(d.path(), vec![Default::default()]);
    let db = Db::open_or_create(&o).unwrap();
    db.commit(vec![(0u8, b"key1".to_vec(), Some(b"value1".to_vec()))]).unwrap();
    db.process_commits().unwrap();
    db.flush_logs().unwrap();
    let d2 = tempfile::tempdir().unwrap();
    copy_dir(d.path(), d2.path());
    std::mem::forget(db);
    let b = std::fs::read(d2.path().join("log0")).unwrap();
    (d2, b)
}

#[test]
fn f2_rejected_tree_tx_consumes_slots() {
    let d = tempfile::tempdir().unwrap();
    let mut mt = ColumnOptions::default(); mt.multitree = true; mt.allow_direct_node_access = true;
    let o = opts(d.path(), vec![mt]);
    let db = Db::open_or_create(&o).unwrap();
    let drain = |db: &Db| { db.process_commits().unwrap(); db.flush_logs().unwrap(); db.enact_logs().unwrap(); };
    println!("F2 entries before = {}", db.get_num_column_value_entries(0).unwrap());
    let kids: Vec<NodeRef> = (0..3).map(|i| NodeRef::New(NewNode { data: vec![i; 8], children: vec![] })).collect();
    let r = db.commit_changes(vec![
        (0, Operation::InsertTree(b"t".to_vec(), NewNode { data: b"root".to_vec(), children: kids })),
        (0, Operation::Set(b"k".to_vec(), b"v".to_vec())),
    ]);
    println!("F2 commit = {:?}", r.as_ref().err());
    drain(&db);
    println!("F2 entries after rejected tx = {}", db.get_num_column_value_entries(0).unwrap());
}

#[test]
fn f7_drop_table_bad_column() {
    let (d2, mut b) = crash_image_with_one_commit();
    let n = b.len();
    // insert DROP_TABLE(5) + table id (col 9, bits 16) before END_RECORD
    let tail = b.split_off(n - 5);
    b.push(5); b.extend_from_slice(&(((9u16) << 8) | 16).to_le_bytes());
    b.extend_from_slice(&tail);
    recrc(&mut b);
    std::fs::write(d2.path().join("log0"), &b).unwrap();
    let o2 = opts(d2.path(), vec![Default::default()]);
    let r = std::panic::catch_unwind(|| Db::open(&o2).map(|_| ()));
    println!("F7 open with checksum-valid DropTable(col 9): panicked = {}", r.is_err());
}

#[test]
fn f6_index_chunk_out_of_range() {
    let (d2, mut b) = crash_image_with_one_commit();
    assert_eq!(b[9], 2);
    let old = u64::from_le_bytes(b[12..20].try_into().unwrap());
    let new: u64 = (1u64 << 16) + 4096; // >= total_chunks(16), < total_entries(16)
    b[12..20].copy_from_slice(&new.to_le_bytes());
    recrc(&mut b);
    std::fs::write(d2.path().join("log0"), &b).unwrap();
    println!("F6 chunk index {} -> {} (total_chunks = 65536)", old, new);
    let o2 = opts(d2.path(), vec![Default::default()]);
    let r = std::panic::catch_unwind(|| Db::open(&o2).map(|_| ()));
    println!("F6 open returned: panicked = {}, result = {:?}", r.is_err(), r.ok().map(|x| x.is_ok()));
}
