// H2C10 finding 3: with debug logging enabled, dereferencing a tree whose root key is shorter than
// 3 bytes panics the log worker. The panic happens after the removal was planned in memory (slots
// pushed on the free lists, reference counts changed) and before the record is written: the tree
// is never removed, no later commit is ever applied, commit_changes keeps returning Ok.
//
// Root cause: src/db.rs, IndexedChangeSet::write_plan, NodeChange::DereferenceChildren branch:
//     log::debug!(target: "parity-db", "Dereferenced tree {:?}, removed {}", &key[0..3], num_removed);
// `key` is the root key as given by the user; `&key[0..3]` is evaluated whenever the `log` max
// level admits Debug (RUST_LOG=debug with env_logger, or any other logger).
//
// Run: cargo test --offline --features instrumentation --test hunt_H2C10_3
// `short_root_key_with_debug_logging` FAILS (log worker: "range end index 3 out of range for slice
// of length 1"), `control_three_byte_root_key_with_debug_logging` passes.

use parity_db::{ColumnOptions, Db, NewNode, NodeRef, Operation, Options};
use std::time::{Duration, Instant};

const COL: u8 = 0;

struct Quiet;
impl log::Log for Quiet {
	fn enabled(&self, _: &log::Metadata) -> bool {
		true
	}
	fn log(&self, record: &log::Record) {
		// Format the message like any real logger would, then throw it away.
		let _ = format!("{}", record.args());
	}
	fn flush(&self) {}
}

fn enable_debug_logging() {
	static ONCE: std::sync::Once = std::sync::Once::new();
	ONCE.call_once(|| {
		log::set_logger(&Quiet).unwrap();
		log::set_max_level(log::LevelFilter::Debug);
	});
}

fn options(path: &std::path::Path) -> Options {
	let mut o = Options::with_columns(path, 1);
	o.columns[0] =
		ColumnOptions { multitree: true, allow_direct_node_access: true, ..Default::default() };
	o
}

fn tree(tag: &str) -> NewNode {
	NewNode {
		data: format!("root {tag}").into_bytes(),
		children: (0..3)
			.map(|i| {
				NodeRef::New(NewNode { data: format!("leaf {tag} {i}").into_bytes(), children: vec![] })
			})
			.collect(),
	}
}

fn wait_until(what: &str, mut f: impl FnMut() -> bool) {
	let start = Instant::now();
	while !f() {
		assert!(start.elapsed() < Duration::from_secs(20), "not within 20 s: {what}");
		std::thread::sleep(Duration::from_millis(5));
	}
}

fn scenario(key: &[u8]) {
	enable_debug_logging();
	let tmp = tempfile::tempdir().unwrap();
	let db = Db::open_or_create(&options(tmp.path())).unwrap();

	db.commit_changes(vec![(COL, Operation::InsertTree(key.to_vec(), tree("one")))]).unwrap();
	assert!(db.get_root(COL, key).unwrap().is_some());
	wait_until("tree stored", || db.get_num_column_value_entries(COL).unwrap() == 4);

	db.commit_changes(vec![(COL, Operation::DereferenceTree(key.to_vec()))]).unwrap();
	// A second tree, committed after the dereference.
	db.commit_changes(vec![(COL, Operation::InsertTree(b"another tree".to_vec(), tree("two")))])
		.unwrap();

	wait_until("the dereferenced tree disappears", || db.get_root(COL, key).unwrap().is_none());
	wait_until("only the second tree is left", || {
		db.get_num_column_value_entries(COL).unwrap() == 4
	});
	drop(db);
	let db = Db::open(&options(tmp.path())).unwrap();
	assert_eq!(db.get_root(COL, key).unwrap(), None);
	assert!(db.get_root(COL, b"another tree").unwrap().is_some(), "accepted tree lost");
	assert_eq!(db.get_num_column_value_entries(COL).unwrap(), 4);
}

#[test]
fn short_root_key_with_debug_logging() {
	scenario(b"k");
}

#[test]
fn control_three_byte_root_key_with_debug_logging() {
	scenario(b"kkk");
}
