// H2C10 finding 2: the log worker checks "is a TreeReader of the dereferenced tree locked?" and
// only later takes the write lock of that TreeReader with a blocking `write()`. A reader that
// locks the tree in between stops the log worker for as long as it holds the lock. If that
// reader (the usual import thread: it reads the parent tree and commits new trees) then has to
// wait for room in the commit queue, nobody is left to drain the queue: commit_changes never
// returns, the dereference is never applied, Db::drop hangs.
//
// Window: DbInner::process_commits (src/db.rs) - deferral check at the top, `log::debug!
// ("Processing commit ..")`, then IndexedChangeSet::write_plan -> NodeChange::DereferenceChildren
// -> `let guard = tree.write();`. The window contains a log statement, so the schedule is imposed
// with a `log::Log` implementation that parks the worker inside that statement (no gdb needed).
//
// Run: cargo test --offline --features instrumentation --test hunt_H2C10_2
//
// `reader_locks_the_tree_after_the_deferral_check` FAILS on the unmodified code (commit does not
// return within 20 s); `control_reader_locks_the_tree_before_the_dereference_is_processed` is the
// same history with the lock taken before the check and passes.

use parity_db::{ColumnOptions, Db, NewNode, NodeRef, Operation, Options};
use std::{
	sync::{
		atomic::{AtomicU64, AtomicU8, Ordering},
		mpsc, Arc, Mutex,
	},
	time::{Duration, Instant},
};

const COL: u8 = 0;

// 0 = idle, 1 = armed, 2 = log worker parked inside the log statement, 3 = released
static HOOK: AtomicU8 = AtomicU8::new(0);
static PROCESSED: AtomicU64 = AtomicU64::new(0);
static SERIAL: Mutex<()> = Mutex::new(());

struct Logger;

impl log::Log for Logger {
	fn enabled(&self, _: &log::Metadata) -> bool {
		true
	}
	fn log(&self, record: &log::Record) {
		if record.target() != "parity-db" {
			return
		}
		let msg = format!("{}", record.args());
		if msg.starts_with("Processed commit") {
			PROCESSED.fetch_add(1, Ordering::SeqCst);
		}
		if msg.starts_with("Processing commit") &&
			HOOK.compare_exchange(1, 2, Ordering::SeqCst, Ordering::SeqCst).is_ok()
		{
			// The deferral check of this commit is done, its plan has not started.
			while HOOK.load(Ordering::SeqCst) != 3 {
				std::thread::sleep(Duration::from_millis(1));
			}
			HOOK.store(0, Ordering::SeqCst);
		}
	}
	fn flush(&self) {}
}

fn init_logger() {
	static ONCE: std::sync::Once = std::sync::Once::new();
	ONCE.call_once(|| {
		log::set_logger(&Logger).unwrap();
		log::set_max_level(log::LevelFilter::Debug);
	});
}

fn options(path: &std::path::Path) -> Options {
	let mut o = Options::with_columns(path, 1);
	o.columns[0] =
		ColumnOptions { multitree: true, allow_direct_node_access: true, ..Default::default() };
	o
}

fn wait_until(what: &str, mut f: impl FnMut() -> bool) {
	let start = Instant::now();
	while !f() {
		assert!(start.elapsed() < Duration::from_secs(60), "timed out: {what}");
		std::thread::sleep(Duration::from_millis(2));
	}
}

fn small_tree(tag: &str) -> NewNode {
	NewNode {
		data: format!("root of {tag}").into_bytes(),
		children: vec![NodeRef::New(NewNode {
			data: format!("leaf of {tag}").into_bytes(),
			children: vec![],
		})],
	}
}

// 18 nodes of 1 MiB: more than MAX_COMMIT_QUEUE_BYTES (16 MiB) in one commit.
fn big_tree() -> NewNode {
	NewNode {
		data: b"root of B".to_vec(),
		children: (0..18u8)
			.map(|i| NodeRef::New(NewNode { data: vec![i; 1024 * 1024], children: vec![] }))
			.collect(),
	}
}

fn scenario(lock_after_check: bool) {
	let _serial = SERIAL.lock().unwrap_or_else(|e| e.into_inner());
	init_logger();
	let tmp = tempfile::tempdir().unwrap();
	let db = Arc::new(Db::open_or_create(&options(tmp.path())).unwrap());

	// Tree A, fully processed.
	let processed = PROCESSED.load(Ordering::SeqCst);
	db.commit_changes(vec![(COL, Operation::InsertTree(b"tree-A".to_vec(), small_tree("A")))]).unwrap();
	wait_until("A processed", || PROCESSED.load(Ordering::SeqCst) > processed);

	let reader = db.get_tree(COL, b"tree-A").unwrap().expect("A exists");

	let guard = if lock_after_check {
		// Park the log worker between the deferral check and the plan of the next commit.
		HOOK.store(1, Ordering::SeqCst);
		db.commit_changes(vec![(COL, Operation::DereferenceTree(b"tree-A".to_vec()))]).unwrap();
		wait_until("log worker reached the plan of the dereference", || {
			HOOK.load(Ordering::SeqCst) == 2
		});
		// An ordinary reader: lock the tree, look at the root.
		match reader.try_read_for(Duration::from_secs(2)) {
			Some(guard) => {
				assert!(guard.get_root().unwrap().is_some());
				guard
			},
			None => {
				// The log worker already owns the tree (an implementation that locks at the
				// check): let it finish, then read.
				HOOK.store(3, Ordering::SeqCst);
				reader.read()
			},
		}
	} else {
		let guard = reader.read();
		assert!(guard.get_root().unwrap().is_some());
		db.commit_changes(vec![(COL, Operation::DereferenceTree(b"tree-A".to_vec()))]).unwrap();
		guard
	};

	// While reading, the same thread commits a large new tree: accepted, the queue is now full.
	db.commit_changes(vec![(COL, Operation::InsertTree(b"tree-B".to_vec(), big_tree()))]).unwrap();
	let _ = HOOK.compare_exchange(2, 3, Ordering::SeqCst, Ordering::SeqCst);

	// ... and one more tree. This has to wait until the log worker has taken B off the queue.
	let (tx, rx) = mpsc::channel();
	let committer = {
		let db = db.clone();
		std::thread::spawn(move || {
			let r = db.commit_changes(vec![(COL, Operation::InsertTree(b"tree-C".to_vec(), small_tree("C")))]);
			let _ = tx.send(r.is_ok());
		})
	};
	let returned = rx.recv_timeout(Duration::from_secs(20));

	// End of the read. (Also lets a stuck pipeline go on, so that the test can finish.)
	drop(guard);
	drop(reader);
	committer.join().unwrap();

	assert_eq!(
		returned,
		Ok(true),
		"commit_changes(InsertTree C) did not return within 20 s while a reader held the lock of \
		 the tree that is being dereferenced: the log worker is blocked in `tree.write()` and the \
		 committer waits for room in the commit queue"
	);

	// Everything is applied in the end.
	wait_until("A is gone", || db.get_root(COL, b"tree-A").unwrap().is_none());
	assert_eq!(db.get_root(COL, b"tree-B").unwrap().map(|r| r.0), Some(b"root of B".to_vec()));
	assert_eq!(db.get_root(COL, b"tree-C").unwrap().map(|r| r.0), Some(b"root of C".to_vec()));
}

#[test]
fn reader_locks_the_tree_after_the_deferral_check() {
	scenario(true);
}

#[test]
fn control_reader_locks_the_tree_before_the_dereference_is_processed() {
	scenario(false);
}
