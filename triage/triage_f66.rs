// C18: "While a database handle is alive in any process, every other attempt to open the same
// directory fails with a lock error and changes nothing".
//
// `migrate(from, to, overwrite = true, ..)` opens (open-or-create) the directory
// `<from>/overwrite_staging`. Before it does, it removes that directory recursively
// (`remove_staging_dir`, src/migration.rs:55-66) without looking at its `lock` file. A database
// whose handle is alive on that directory is deleted from under the handle - `lock` included - and
// `migrate` then creates a fresh directory of the same name and holds a second live handle on it.
//
// Run: cargo test --offline --features instrumentation --test hunt_H3C18_1
use parity_db::{ColumnOptions, CompressionType, Db, Error, Options};
use std::{collections::BTreeMap, path::Path};

fn snapshot(dir: &Path) -> BTreeMap<String, Vec<u8>> {
	let mut out = BTreeMap::new();
	if let Ok(rd) = std::fs::read_dir(dir) {
		for e in rd {
			let e = e.unwrap();
			if e.path().is_file() {
				out.insert(e.file_name().to_string_lossy().to_string(), std::fs::read(e.path()).unwrap());
			}
		}
	}
	out
}

#[test]
fn in_place_migrate_removes_a_directory_with_a_live_handle() {
	let tmp = tempfile::tempdir().unwrap();

	// The database that is going to be migrated in place.
	let from = tmp.path().join("db");
	let mut source_options = Options::with_columns(&from, 1);
	source_options.columns[0] = ColumnOptions { preimage: false, uniform: true, ..Default::default() };
	{
		let db = Db::open_or_create(&source_options).unwrap();
		db.commit((0..100u8).map(|i| (0u8, [i; 32].to_vec(), Some(vec![i; 40])))).unwrap();
	}

	// Another database, alive. Its directory is a sub-directory of the first one.
	let held_path = from.join("overwrite_staging");
	let held_options = Options::with_columns(&held_path, 1);
	let held = Db::open_or_create(&held_options).unwrap();
	held.commit(vec![(0u8, b"key".to_vec(), Some(b"value".to_vec()))]).unwrap();

	// The lock works for every ordinary attempt.
	assert!(matches!(Db::open(&held_options), Err(Error::Locked(_))));
	assert!(matches!(Db::open_or_create(&held_options), Err(Error::Locked(_))));
	let lock_before = std::fs::metadata(held_path.join("lock")).map(|m| {
		use std::os::unix::fs::MetadataExt;
		m.ino()
	});
	let before = snapshot(&held_path);
	assert!(before.contains_key("metadata") && before.contains_key("lock"));

	// In-place migration of the outer database (the column changes, so it is re-populated).
	let mut to = Options::with_columns(Path::new("ignored-in-place"), 1);
	to.columns[0] =
		ColumnOptions { preimage: false, uniform: true, compression: CompressionType::Lz4, ..Default::default() };
	let result = parity_db::migrate(&from, to, true, &[]);
	println!("migrate result: {:?}", result);

	let after = snapshot(&held_path);
	let lock_after = std::fs::metadata(held_path.join("lock")).map(|m| {
		use std::os::unix::fs::MetadataExt;
		m.ino()
	});
	println!("held dir exists afterwards: {}", held_path.exists());
	println!("files before: {:?}", before.keys().collect::<Vec<_>>());
	println!("files after:  {:?}", after.keys().collect::<Vec<_>>());
	println!("lock inode before {:?}, after {:?}", lock_before, lock_after);

	// The handle is still alive, so nobody else may get in ...
	let second = Db::open_or_create(&held_options);
	println!("second open while the first handle is alive: {:?}", second.as_ref().map(|_| "Ok(Db)"));
	let two_handles = second.is_ok();
	drop(second);

	// ... and what was committed through it is there after close and reopen.
	drop(held);
	let reopened = Db::open_or_create(&held_options).unwrap();
	let value = reopened.get(0, b"key").unwrap();
	println!("value after close and reopen: {:?}", value);

	assert!(
		matches!(result, Err(Error::Locked(_))),
		"migrate went through a directory with a live handle: {:?}",
		result
	);
	// (the held handle's own workers may have written its log meanwhile: compare what a foreign call could take away)
	assert_eq!(before.get("metadata"), after.get("metadata"), "the directory of the live handle was changed");
	assert_eq!(format!("{:?}", lock_before), format!("{:?}", lock_after), "the lock file of the live handle was replaced");
	assert!(!two_handles, "two live handles on one directory");
	assert_eq!(value, Some(b"value".to_vec()));
}
