// C02: a crash at any instant recovers to a prefix of the committed transactions.
//
// A transaction that removes a tree of a multitree column is taken apart and its removals are
// re-queued BEHIND later transactions although no client holds (let alone locks) a tree reader:
// the log worker's own write lock on the tree it is removing is mistaken for a client reader by
// a commit that arrives in the meantime.
//
// History (col 0 multitree, col 1 plain hash column holding a transaction marker):
//   T1 = { InsertTree(X, BIG), InsertTree(Y, small), marker := 1 }
//   T2 = { DereferenceTree(X), marker := 2 }
//   T3 = { DereferenceTree(X), DereferenceTree(Y), marker := 3 }   (X is still readable when T3 is
//                                                                   submitted: T2 is only queued)
//   T4 = { InsertTree(X, NEW), marker := 4 }    submitted while the log worker plans T2
// States of the prefixes:
//   0: -            1: X=BIG Y m=1        2: Y m=2        3: m=3        4: X=NEW m=4
//
// The test stops the process (directory image without the `lock` file) after every record that
// has been applied and opens the image. Every image has to show one of the five states.
//
// Run: cargo test --offline --features instrumentation --test hunt_H4C02_1 -- --nocapture --test-threads=1
#![cfg(feature = "instrumentation")]

use parity_db::{ColumnOptions, Db, NewNode, NodeRef, Operation, Options};
use std::path::{Path, PathBuf};

const WORKTREE_TMP: &str = concat!(env!("CARGO_MANIFEST_DIR"), "/tmp");

const X: &[u8] = b"tree X";
const Y: &[u8] = b"tree Y";
const MARKER: &[u8] = b"marker";

fn options(path: &Path) -> Options {
	let mut o = Options::with_columns(path, 2);
	o.columns[0] = ColumnOptions {
		multitree: true,
		allow_direct_node_access: true,
		..Default::default()
	};
	o.with_background_thread = false;
	o.always_flush = true;
	o.stats = false;
	o
}

fn leaf(tag: u8, i: usize) -> NewNode {
	NewNode { data: vec![tag, (i >> 8) as u8, i as u8], children: Vec::new() }
}

fn big_tree() -> NewNode {
	// 1 + 200 + 200 * 100 nodes: walking it takes the log worker a while.
	let children = (0..200)
		.map(|i| {
			NodeRef::New(NewNode {
				data: vec![b'b', i as u8],
				children: (0..100).map(|j| NodeRef::New(leaf(b'B', i * 100 + j))).collect(),
			})
		})
		.collect();
	NewNode { data: b"BIG root".to_vec(), children }
}

fn small_tree(root: &[u8], tag: u8) -> NewNode {
	NewNode { data: root.to_vec(), children: (0..3).map(|i| NodeRef::New(leaf(tag, i))).collect() }
}

fn marker(n: u8) -> (u8, Operation<Vec<u8>, Vec<u8>>) {
	(1, Operation::Set(MARKER.to_vec(), vec![n]))
}

fn copy_image(from: &Path, to: &Path) {
	std::fs::create_dir_all(to).unwrap();
	for e in std::fs::read_dir(from).unwrap() {
		let e = e.unwrap();
		if e.file_name() == "lock" {
			continue
		}
		let st = std::process::Command::new("cp")
			.arg("--sparse=always")
			.arg(e.path())
			.arg(to.join(e.file_name()))
			.status()
			.unwrap();
		assert!(st.success());
	}
}

// What a reopened database shows: (root data of X, root data of Y, marker), children are read too.
#[derive(Debug, PartialEq, Eq, Clone)]
struct Seen {
	x: Option<Vec<u8>>,
	y: Option<Vec<u8>>,
	m: u8,
}

fn read_tree(db: &Db, key: &[u8]) -> Option<Vec<u8>> {
	let (data, children) = db.get_root(0, key).unwrap()?;
	let mut pending = children;
	while let Some(a) = pending.pop() {
		let (_d, ch) = db
			.get_node(0, a)
			.unwrap()
			.unwrap_or_else(|| panic!("tree {:?}: node {:#x} is gone", String::from_utf8_lossy(key), a));
		pending.extend(ch);
	}
	Some(data)
}

fn look(db: &Db) -> Seen {
	Seen {
		x: read_tree(db, X),
		y: read_tree(db, Y),
		m: db.get(1, MARKER).unwrap().map_or(0, |v| v[0]),
	}
}

fn prefixes() -> Vec<Seen> {
	let big = Some(b"BIG root".to_vec());
	let y = Some(b"Y root".to_vec());
	let new = Some(b"NEW root".to_vec());
	vec![
		Seen { x: None, y: None, m: 0 },
		Seen { x: big, y: y.clone(), m: 1 },
		Seen { x: None, y, m: 2 },
		Seen { x: None, y: None, m: 3 },
		Seen { x: new, y: None, m: 4 },
	]
}

fn run(use_probe: bool, name: &str) -> Vec<(String, Seen)> {
	std::fs::create_dir_all(WORKTREE_TMP).unwrap();
	let dir = tempfile::Builder::new().prefix(name).tempdir_in(WORKTREE_TMP).unwrap();
	let live: PathBuf = dir.path().join("live");
	let opts = options(&live);
	let db = Db::open_or_create(&opts).unwrap();

	let apply = |db: &Db| {
		db.flush_logs().unwrap();
		db.enact_logs().unwrap();
	};

	// T1
	db.commit_changes(vec![
		(0, Operation::InsertTree(X.to_vec(), big_tree())),
		(0, Operation::InsertTree(Y.to_vec(), small_tree(b"Y root", b'y'))),
		marker(1),
	])
	.unwrap();
	db.process_commits().unwrap();
	apply(&db);
	assert_eq!(look(&db), prefixes()[1]);

	// T2, T3: both queued
	db.commit_changes(vec![(0, Operation::DereferenceTree(X.to_vec())), marker(2)]).unwrap();
	db.commit_changes(vec![
		(0, Operation::DereferenceTree(X.to_vec())),
		(0, Operation::DereferenceTree(Y.to_vec())),
		marker(3),
	])
	.unwrap();

	// The log worker takes T2 (here: a thread that drives the stepping API) ...
	let hit = std::thread::scope(|s| {
		let worker = s.spawn(|| db.process_commits().unwrap());
		// ... and while it is busy with it the client submits T4. No tree reader is ever locked by
		// the client. The probe only tells the test when the worker is in the middle of T2; with
		// HUNT_NO_PROBE=1 the test does not touch `get_tree` at all and just waits a little.
		let hit;
		if use_probe {
			loop {
				let r = db.get_tree(0, X).unwrap().expect("X is readable until T2 is logged");
				let locked = r.is_locked();
				drop(r);
				if locked {
					break
				}
				assert!(!worker.is_finished(), "the worker finished T2 before it was seen at work");
				std::hint::spin_loop();
			}
		} else {
			std::thread::sleep(std::time::Duration::from_millis(40));
		}
		db.commit_changes(vec![
			(0, Operation::InsertTree(X.to_vec(), small_tree(b"NEW root", b'n'))),
			marker(4),
		])
		.unwrap();
		hit = !worker.is_finished();
		worker.join().unwrap();
		hit
	});
	assert!(hit, "schedule missed: T4 was submitted after the worker was done with T2");

	// Everything else, one record at a time, with an image after each applied record.
	let mut images = Vec::new();
	let mut shot = |db: &Db, what: &str| {
		let img = dir.path().join(format!("img{}", images.len()));
		copy_image(&live, &img);
		images.push((what.to_string(), img));
	};
	apply(&db);
	shot(&db, "after the record of T2");
	for i in 0..4 {
		db.process_commits().unwrap();
		apply(&db);
		shot(&db, &format!("after {} more call(s) of the log worker", i + 1));
	}
	let at_end = look(&db);
	drop(db);

	let mut seen = vec![("the running database at the end".to_string(), at_end)];
	for (what, img) in images {
		let db = Db::open(&options(&img)).unwrap();
		seen.push((format!("image {}", what), look(&db)));
	}
	seen
}

fn check(seen: Vec<(String, Seen)>) {
	let allowed = prefixes();
	let mut bad = Vec::new();
	for (what, s) in &seen {
		let ok = allowed.contains(s);
		println!(
			"{:55} X={:?} Y={:?} marker={} {}",
			what,
			s.x.as_ref().map(|d| String::from_utf8_lossy(d).to_string()),
			s.y.as_ref().map(|d| String::from_utf8_lossy(d).to_string()),
			s.m,
			if ok { "" } else { "  <-- state of no prefix" }
		);
		if !ok {
			bad.push(what.clone());
		}
	}
	assert!(bad.is_empty(), "not the state of a prefix of T1..T4: {:?}", bad);
}

#[test]
fn removal_is_not_reordered_behind_a_later_commit() {
	let use_probe = std::env::var("HUNT_NO_PROBE").is_err();
	check(run(use_probe, "h4c02_1_"));
}

// Control: same history, T4 submitted after the worker is done with T2. Passes.
#[test]
fn control_commit_after_the_worker_is_done() {
	std::fs::create_dir_all(WORKTREE_TMP).unwrap();
	let dir = tempfile::Builder::new().prefix("h4c02_1c_").tempdir_in(WORKTREE_TMP).unwrap();
	let live: PathBuf = dir.path().join("live");
	let db = Db::open_or_create(&options(&live)).unwrap();
	let apply = |db: &Db| {
		db.flush_logs().unwrap();
		db.enact_logs().unwrap();
	};
	db.commit_changes(vec![
		(0, Operation::InsertTree(X.to_vec(), big_tree())),
		(0, Operation::InsertTree(Y.to_vec(), small_tree(b"Y root", b'y'))),
		marker(1),
	])
	.unwrap();
	db.process_commits().unwrap();
	apply(&db);
	db.commit_changes(vec![(0, Operation::DereferenceTree(X.to_vec())), marker(2)]).unwrap();
	db.commit_changes(vec![
		(0, Operation::DereferenceTree(X.to_vec())),
		(0, Operation::DereferenceTree(Y.to_vec())),
		marker(3),
	])
	.unwrap();
	db.process_commits().unwrap();
	db.commit_changes(vec![
		(0, Operation::InsertTree(X.to_vec(), small_tree(b"NEW root", b'n'))),
		marker(4),
	])
	.unwrap();
	let mut seen = Vec::new();
	for i in 0..4 {
		apply(&db);
		let img = dir.path().join(format!("img{}", i));
		copy_image(&live, &img);
		let copy = Db::open(&options(&img)).unwrap();
		seen.push((format!("image {}", i), look(&copy)));
		db.process_commits().unwrap();
	}
	apply(&db);
	seen.push(("the running database at the end".to_string(), look(&db)));
	check(seen);
}

// The same with the real background workers and no stop at all: the database is closed cleanly
// and reopened. Fails on the unmodified code: X is gone although T4 is the last transaction.
#[test]
fn with_background_workers_and_a_clean_close() {
	std::fs::create_dir_all(WORKTREE_TMP).unwrap();
	let dir = tempfile::Builder::new().prefix("h4c02_1b_").tempdir_in(WORKTREE_TMP).unwrap();
	let live: PathBuf = dir.path().join("live");
	let mut opts = options(&live);
	opts.with_background_thread = true;
	let db = Db::open_or_create(&opts).unwrap();
	db.commit_changes(vec![
		(0, Operation::InsertTree(X.to_vec(), big_tree())),
		(0, Operation::InsertTree(Y.to_vec(), small_tree(b"Y root", b'y'))),
		marker(1),
	])
	.unwrap();
	// let the workers finish T1
	std::thread::sleep(std::time::Duration::from_millis(1500));
	db.commit_changes(vec![(0, Operation::DereferenceTree(X.to_vec())), marker(2)]).unwrap();
	db.commit_changes(vec![
		(0, Operation::DereferenceTree(X.to_vec())),
		(0, Operation::DereferenceTree(Y.to_vec())),
		marker(3),
	])
	.unwrap();
	let t0 = std::time::Instant::now();
	loop {
		let locked = match db.get_tree(0, X).unwrap() {
			Some(r) => r.is_locked(),
			None => panic!("schedule missed: T2 was logged before the log worker was seen at work"),
		};
		if locked {
			break
		}
		assert!(t0.elapsed().as_secs() < 20, "schedule missed");
		std::hint::spin_loop();
	}
	db.commit_changes(vec![
		(0, Operation::InsertTree(X.to_vec(), small_tree(b"NEW root", b'n'))),
		marker(4),
	])
	.unwrap();
	drop(db);
	let db = Db::open(&opts).unwrap();
	check(vec![("after a clean close and reopen".to_string(), look(&db))]);
}
