// C20: migration copies every key, value and reference count.
//
// Same root cause as hunt_HC20_2 (the index walk of `migrate` ignores the index tables that are
// still being reindexed), shown with nothing but the public API and the default build: a database
// is filled until its index grows (two index files) and is closed, as any application would, before
// the background reindex is over. `migrate` then returns `Ok` and the destination lacks keys.
//
// The source is written, closed, and checked to hold every key before the migration. How many keys
// are lost depends on how far the resumed background reindex of the source gets while the walk
// runs (between 900 and 2.3 million of 3.2 million in three runs); hunt_HC20_2 is the controlled
// version.
//
// Run (release, about 30 s, 1 GB of disk in the temporary directory):
//   cargo test --release --offline --test hunt_HC20_3 -- --nocapture

use parity_db::{CompressionType, Db, Options};
use tempfile::tempdir;

fn index_files(path: &std::path::Path) -> Vec<String> {
	let mut files: Vec<String> = std::fs::read_dir(path)
		.unwrap()
		.map(|e| e.unwrap().file_name().into_string().unwrap())
		.filter(|n| n.starts_with("index_"))
		.collect();
	files.sort();
	files
}

#[test]
fn a_source_closed_while_its_index_grows_is_migrated_completely() {
	let dir = tempdir().unwrap();
	let source_dir = dir.path().join("source");
	let dest_dir = dir.path().join("dest");
	let source = Options::with_columns(&source_dir, 1);
	let n = 3_200_000u32;
	let key = |i: u32| i.to_le_bytes().to_vec();
	let value = |i: u32| i.to_be_bytes().to_vec();
	{
		let db = Db::open_or_create(&source).unwrap();
		for start in (0..n).step_by(20000) {
			db.commit((start..start + 20000).map(|i| (0u8, key(i), Some(value(i))))).unwrap();
		}
	}
	let files = index_files(&source_dir);
	eprintln!("index files of the closed source: {files:?}");
	if files.len() < 2 {
		eprintln!("the reindex of the source was over when it was closed, nothing to show");
		return
	}
	{
		// The source has every key. It is opened without write access so that it stays as it is.
		let db = Db::open_read_only(&source).unwrap();
		for i in 0..n {
			assert_eq!(db.get(0, &key(i)).unwrap(), Some(value(i)));
		}
	}

	let mut dest = source.clone();
	dest.path = dest_dir.clone();
	dest.columns[0].compression = CompressionType::Lz4;
	parity_db::migrate(&source_dir, dest.clone(), false, &[]).unwrap();

	let db = Db::open(&dest).unwrap();
	let missing = (0..n).filter(|i| db.get(0, &key(*i)).unwrap() != Some(value(*i))).count();
	let mut count = 0u32;
	db.iter_column_while(0, |_| {
		count += 1;
		true
	})
	.unwrap();
	assert_eq!(
		(missing, count),
		(0, n),
		"(keys of the source that the destination does not return, values in the destination)"
	);
}
