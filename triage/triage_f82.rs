// C12: a log file whose fdatasync failed is abandoned un-synced, and the log worker goes on
// logging into a NEW file. Two log files with un-synced content then exist side by side; a power
// loss keeps the newer one and nothing of the older one, and recovery applies the later transaction
// without the earlier one (not a prefix of the committed transactions).
//
// Deterministic, stepping API. Run with
//   cargo test --offline --features instrumentation --test hunt_h6C12_1 -- --nocapture
#![cfg(feature = "instrumentation")]

use parity_db::{ColumnOptions, Db, Options};
use std::{
	collections::HashMap,
	path::{Path, PathBuf},
	sync::Mutex,
};

// ---- observation of the sync calls the library makes on its log files -------------------------
// A definition in the executable takes precedence over libc; the real call is made with syscall(2).
// For every log file the length it had at its last successful sync is remembered: that much of it
// is durable, what was appended since then is not.

static DURABLE_LEN: Mutex<Option<HashMap<PathBuf, u64>>> = Mutex::new(None);
static SYNC_TRACE: Mutex<Vec<String>> = Mutex::new(Vec::new());

fn note_sync(what: &str, fd: libc::c_int, ok: bool) {
	let path = match std::fs::read_link(format!("/proc/self/fd/{fd}")) {
		Ok(p) => p,
		Err(_) => return,
	};
	let name = path.file_name().and_then(|n| n.to_str()).unwrap_or("").to_string();
	if !name.starts_with("log") {
		return
	}
	let len = std::fs::metadata(&path).map(|m| m.len()).unwrap_or(0);
	SYNC_TRACE.lock().unwrap().push(format!("{what}({name}, len {len}) = {}", if ok { "ok" } else { "err" }));
	if ok {
		if let Some(map) = DURABLE_LEN.lock().unwrap().as_mut() {
			map.insert(path, len);
		}
	}
}

#[no_mangle]
pub extern "C" fn fdatasync(fd: libc::c_int) -> libc::c_int {
	let r = unsafe { libc::syscall(libc::SYS_fdatasync, fd) } as libc::c_int;
	note_sync("fdatasync", fd, r == 0);
	r
}

#[no_mangle]
pub extern "C" fn fsync(fd: libc::c_int) -> libc::c_int {
	let r = unsafe { libc::syscall(libc::SYS_fsync, fd) } as libc::c_int;
	note_sync("fsync", fd, r == 0);
	r
}

// ---- helpers ---------------------------------------------------------------------------------

fn options(path: &Path) -> Options {
	let mut o = Options::with_columns(path, 1);
	o.columns[0] = ColumnOptions { uniform: true, ..Default::default() };
	o.salt = Some([0; 32]);
	o.with_background_thread = false;
	// sync_wal = sync_data = true are the defaults and are kept.
	assert!(o.sync_wal && o.sync_data);
	o
}

fn key(n: u8) -> Vec<u8> {
	let mut k = vec![0u8; 32];
	k[0] = n;
	k[1] = 0x55;
	k[31] = n;
	k
}

fn log_files(dir: &Path) -> Vec<(String, u64)> {
	let mut v: Vec<_> = std::fs::read_dir(dir)
		.unwrap()
		.map(|e| e.unwrap())
		.filter(|e| e.file_name().to_str().unwrap().starts_with("log"))
		.map(|e| (e.file_name().to_str().unwrap().to_string(), e.metadata().unwrap().len()))
		.collect();
	v.sort();
	v
}

/// The directory a power loss leaves: every table / index file with all its pages written back
/// (one of the allowed subsets; nothing un-logged is in them anyway), every log file = its durable
/// part + `tail(name, durable, len)` bytes of what was appended since its last sync.
fn power_loss_image(src: &Path, dst: &Path, tail: &dyn Fn(&str, u64, u64) -> u64) {
	std::fs::create_dir_all(dst).unwrap();
	let durable = DURABLE_LEN.lock().unwrap().clone().unwrap();
	for e in std::fs::read_dir(src).unwrap() {
		let e = e.unwrap();
		let name = e.file_name().to_str().unwrap().to_string();
		if name == "lock" {
			continue
		}
		let to = dst.join(&name);
		if name.starts_with("log") {
			let data = std::fs::read(e.path()).unwrap();
			let d = durable.get(&e.path()).copied().unwrap_or(0).min(data.len() as u64);
			let keep = d + tail(&name, d, data.len() as u64).min(data.len() as u64 - d);
			std::fs::write(&to, &data[..keep as usize]).unwrap();
		} else {
			std::fs::copy(e.path(), &to).unwrap();
		}
	}
}

#[test]
fn unsynced_log_is_abandoned_and_a_newer_log_survives_the_power_loss() {
	let tmp = tempfile::tempdir().unwrap();
	let dir = tmp.path().join("db");
	*DURABLE_LEN.lock().unwrap() = Some(HashMap::new());

	let v0 = vec![0xA0u8; 40];
	let v1 = vec![0xA1u8; 40];
	let v2 = vec![0xA2u8; 40];

	let opts = options(&dir);
	let db = Db::open_or_create(&opts).unwrap();

	// T0: all the way through the pipeline, its log is cleaned (truncated + fsynced -> pool).
	db.commit(vec![(0u8, key(0), Some(v0.clone()))]).unwrap();
	db.process_commits().unwrap();
	db.flush_logs().unwrap();
	db.enact_logs().unwrap();
	db.clean_logs().unwrap();

	// T1 and T2 are accepted.
	db.commit(vec![(0u8, key(1), Some(v1.clone()))]).unwrap();
	db.commit(vec![(0u8, key(2), Some(v2.clone()))]).unwrap();

	// Log worker: T1 -> record 2, appended to log file A.
	db.process_commits().unwrap();
	let before = log_files(&dir);
	println!("after T1 was logged:  {before:?}");

	// Flush worker: takes A, its fdatasync fails (2nd instrumented operation of `Log::flush_one`;
	// the failure is injected instead of the call, A is never synced).
	parity_db::set_number_of_allowed_io_operations(1);
	let r = db.flush_logs();
	parity_db::set_number_of_allowed_io_operations(usize::MAX);
	println!("flush_logs: {:?}", r.as_ref().err().map(|e| e.to_string()));
	assert!(r.is_err(), "the fault was not hit");

	// Log worker: `while !shutdown || more_commits { more_commits = process_commits()? .. }`.
	// T1 made `more_commits` true, so the next queued commit is processed whatever the shutdown
	// flag says: T2 -> record 3. `appending` is empty, a NEW file B is started.
	db.process_commits().unwrap();
	let after = log_files(&dir);
	println!("after T2 was logged:  {after:?}");

	// The handle goes away (error state: tables flushed, enacted logs truncated - there are none).
	drop(db);
	println!("after drop:           {:?}", log_files(&dir));
	for l in SYNC_TRACE.lock().unwrap().iter() {
		println!("  sync call: {l}");
	}
	let nonempty: Vec<_> = log_files(&dir).into_iter().filter(|(_, l)| *l > 0).collect();
	let durable = DURABLE_LEN.lock().unwrap().clone().unwrap();
	for (name, len) in &nonempty {
		let d = durable.get(&dir.join(name)).copied().unwrap_or(0);
		println!("  {name}: {len} bytes, {d} of them synced");
	}
	if nonempty.len() == 2 {
		println!("  -> two log files with un-synced content side by side");
	}
	// A is the file T1 was logged to.
	let a_name = before.iter().find(|(_, l)| *l > 0).unwrap().0.clone();
	let a_len = nonempty.iter().find(|(n, _)| *n == a_name).unwrap().1;
	let a_durable = durable.get(&dir.join(&a_name)).copied().unwrap_or(0);

	// Power loss. Every log file keeps its synced bytes and an arbitrary prefix of the bytes
	// appended since. Every prefix length of A is tried, any other file is kept whole.
	let mut bad = Vec::new();
	let mut outcomes: Vec<(u64, bool, bool, bool)> = Vec::new();
	let total = a_len - a_durable;
	for keep_a in 0..=total {
		// all short prefixes, the record boundaries, every 5th length in between
		if keep_a > 16 && keep_a % 5 != 0 && keep_a + 2 < total && !(145..=149).contains(&keep_a) {
			continue
		}
		let img = tmp.path().join(format!("img{keep_a}"));
		power_loss_image(&dir, &img, &|name, _d, len| if name == a_name { keep_a } else { len });
		let mut o = options(&img);
		o.path = img.clone();
		let db = Db::open(&o).unwrap();
		let k0 = db.get(0, &key(0)).unwrap() == Some(v0.clone());
		let k1 = db.get(0, &key(1)).unwrap() == Some(v1.clone());
		let k2 = db.get(0, &key(2)).unwrap() == Some(v2.clone());
		drop(db);
		let _ = std::fs::remove_dir_all(&img);
		outcomes.push((keep_a, k0, k1, k2));
		// prefix of T0, T1, T2
		if !k0 || (k2 && !k1) {
			bad.push(keep_a);
		}
	}
	let show = |k: u64| {
		let (_, k0, k1, k2) = *outcomes.iter().find(|o| o.0 == k).unwrap();
		println!("  {k:>4} un-synced bytes of {a_name} survive: T0 {k0}  T1 {k1}  T2 {k2}");
	};
	let mut shown = vec![0, 9, 146, 147, total];
	shown.dedup();
	for k in shown {
		if k <= total && outcomes.iter().any(|o| o.0 == k) {
			show(k);
		}
	}
	println!("prefix lengths of {a_name} after which recovery is NOT a prefix of T0,T1,T2: {bad:?}");
	assert!(
		bad.is_empty(),
		"power loss after a failed log sync: T2 was recovered without T1 (both committed, T1 first) \
		 for these surviving lengths of the abandoned log: {bad:?}"
	);
}
