// HC03 finding 1: a commit that contains a `DereferenceTree` is moved BEHIND later commits while a
// reader of that tree is locked ("deferral"), together with every other operation of the same
// transaction. After a clean drop + reopen the database therefore does not show the
// transactions "in order" (an older write wins over a newer one), and after a crash the OLDER
// transaction is missing while the NEWER one is present (the loss is not a suffix).
//
// Run (threads, public API only):
//   cargo test --offline --test hunt_HC03_1 reordered_after_clean_drop
// Run (deterministic stepping + crash image, needs the instrumentation feature):
//   cargo test --offline --features instrumentation --test hunt_HC03_1

use parity_db::{ColumnOptions, Db, NewNode, NodeRef, Operation, Options};

fn options(path: &std::path::Path) -> Options {
	let mut o = Options::with_columns(path, 2);
	// column 0: plain key-value, column 1: multitree
	o.columns[1] = ColumnOptions { multitree: true, ..Default::default() };
	o.stats = false;
	o
}

fn tree() -> NewNode {
	NewNode {
		data: b"root".to_vec(),
		children: vec![NodeRef::New(NewNode { data: b"child".to_vec(), children: vec![] })],
	}
}

/// Background threads, public API only.
#[test]
fn reordered_after_clean_drop() {
	let tmp = tempfile::tempdir().unwrap();
	let o = options(tmp.path());
	let db = Db::open_or_create(&o).unwrap();
	let t = b"tree-root-key".to_vec();
	let k = b"k".to_vec();

	db.commit_changes(vec![(1u8, Operation::InsertTree(t.clone(), tree()))]).unwrap();

	// Somebody is reading the tree.
	let reader = db.get_tree(1, &t).unwrap().unwrap();
	let guard = reader.read();

	// tx1: k = v1, and drop the tree.
	db.commit_changes(vec![
		(0u8, Operation::Set(k.clone(), b"v1".to_vec())),
		(1u8, Operation::DereferenceTree(t.clone())),
	])
	.unwrap();
	// tx2: k = v2. Committed after tx1, so this is the value that must survive.
	db.commit_changes(vec![(0u8, Operation::Set(k.clone(), b"v2".to_vec()))]).unwrap();
	assert_eq!(db.get(0, &k).unwrap(), Some(b"v2".to_vec()));

	// Let the log worker run while the reader is still locked, then finish reading.
	std::thread::sleep(std::time::Duration::from_millis(500));
	drop(guard);
	drop(reader);

	// Clean shutdown and reopen.
	drop(db);
	let db = Db::open(&o).unwrap();
	assert_eq!(
		db.get(0, &k).unwrap().map(|v| String::from_utf8(v).unwrap()).as_deref(),
		Some("v2"),
		"tx2 was committed after tx1, reopening must show tx2's value",
	);
}

#[cfg(feature = "instrumentation")]
fn copy_dir(from: &std::path::Path, to: &std::path::Path) {
	std::fs::create_dir_all(to).unwrap();
	for e in std::fs::read_dir(from).unwrap() {
		let e = e.unwrap();
		if e.file_name() == "lock" {
			continue
		}
		std::fs::copy(e.path(), to.join(e.file_name())).unwrap();
	}
}

/// Stepping API: the crash image holds the synced record of tx2 but nothing of tx1.
#[cfg(feature = "instrumentation")]
#[test]
fn crash_loses_older_commit_but_keeps_newer() {
	let tmp = tempfile::tempdir().unwrap();
	let dir = tmp.path().join("db");
	let mut o = options(&dir);
	o.with_background_thread = false;
	let db = Db::open_or_create(&o).unwrap();
	let t = b"tree-root-key".to_vec();

	db.commit_changes(vec![(1u8, Operation::InsertTree(t.clone(), tree()))]).unwrap();
	db.process_commits().unwrap();
	db.flush_logs().unwrap();
	db.enact_logs().unwrap();

	let reader = db.get_tree(1, &t).unwrap().unwrap();
	let guard = reader.read();

	// tx1 then tx2, on different keys.
	db.commit_changes(vec![
		(0u8, Operation::Set(b"k1".to_vec(), b"v1".to_vec())),
		(1u8, Operation::DereferenceTree(t.clone())),
	])
	.unwrap();
	db.commit_changes(vec![(0u8, Operation::Set(b"k2".to_vec(), b"v2".to_vec()))]).unwrap();

	// The log worker takes two steps, the flush worker syncs the log file.
	db.process_commits().unwrap();
	db.process_commits().unwrap();
	db.flush_logs().unwrap();

	// Crash.
	let image = tmp.path().join("image");
	copy_dir(&dir, &image);
	drop(guard);

	let mut o2 = o.clone();
	o2.path = image;
	let recovered = Db::open(&o2).unwrap();
	let k1 = recovered.get(0, b"k1").unwrap();
	let k2 = recovered.get(0, b"k2").unwrap();
	// A crash may lose a suffix of the commits only: tx2 present implies tx1 present.
	assert!(
		!(k2.is_some() && k1.is_none()),
		"after recovery tx2 (newer, k2={:?}) is present but tx1 (older, k1={:?}) is lost",
		k2,
		k1,
	);
}

/// Stepping API, same history as `reordered_after_clean_drop`.
#[cfg(feature = "instrumentation")]
#[test]
fn reordered_after_clean_drop_stepping() {
	let tmp = tempfile::tempdir().unwrap();
	let mut o = options(tmp.path());
	o.with_background_thread = false;
	let db = Db::open_or_create(&o).unwrap();
	let t = b"tree-root-key".to_vec();
	let k = b"k".to_vec();

	db.commit_changes(vec![(1u8, Operation::InsertTree(t.clone(), tree()))]).unwrap();
	db.process_commits().unwrap();

	let reader = db.get_tree(1, &t).unwrap().unwrap();
	let guard = reader.read();
	db.commit_changes(vec![
		(0u8, Operation::Set(k.clone(), b"v1".to_vec())),
		(1u8, Operation::DereferenceTree(t.clone())),
	])
	.unwrap();
	db.commit_changes(vec![(0u8, Operation::Set(k.clone(), b"v2".to_vec()))]).unwrap();
	db.process_commits().unwrap();
	db.process_commits().unwrap();
	drop(guard);
	drop(reader);

	drop(db);
	let db = Db::open(&o).unwrap();
	assert_eq!(
		db.get(0, &k).unwrap().map(|v| String::from_utf8(v).unwrap()).as_deref(),
		Some("v2"),
		"tx2 was committed after tx1, reopening must show tx2's value",
	);
}
