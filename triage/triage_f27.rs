// HC12 finding 1: index tables that are being reindexed are never flushed, the logs that describe
// changes to them are truncated all the same.
//
// Run with:
//   cargo test --offline --features instrumentation --test hunt_HC12_1 -- --nocapture
//
// History (default options: sync_wal = sync_data = true, one session, no faults):
//   1. T0 fills index chunk 0 of the 16 bit index (64 keys); everything is carried through the
//      pipeline.
//   2. T1 = {K} is committed and planned (`process_commits`): its log record inserts K into chunk
//      0x4000 of the CURRENT index, index_00_16.
//   3. T2 = {65th key of chunk 0} is committed and planned: chunk 0 is full, a reindex starts,
//      index_00_17 becomes the current index and index_00_16 moves to the reindex queue.
//      (With the background threads this is the normal state of affairs: the log worker plans
//      ahead of the commit worker.)
//   4. The log is synced, both records are enacted: the record of T1 is written into the memory map
//      of index_00_16, which is now in the reindex queue.
//   5. `clean_logs`: `Column::flush` msyncs the current index, the value tables - and nothing of the
//      reindex queue. Then the log file is truncated and the truncation is fsynced.
//   6. Power is lost; none of the pages that were not synced had been written back by the kernel.
//   7. Recovery: T0 and T2 are there, K of T1 is gone - although the log of T1 had been synced and
//      a later transaction survived. The log that described the change to index_00_16 was
//      truncated before that change was flushed.
//
// The test process interposes msync/fsync/fdatasync (symbols of the test binary take precedence
// over libc) to know which bytes of which file are durable. Nothing in src/ is modified.

use parity_db::{Db, Options};
use std::{
	collections::HashMap,
	os::raw::{c_int, c_void},
	path::{Path, PathBuf},
	sync::Mutex,
};

const PAGE: usize = 4096;

struct Shadow {
	root: PathBuf,
	// File content as of the last msync/fsync/fdatasync that covered each byte.
	durable: HashMap<PathBuf, Vec<u8>>,
	// Number of fsync/fdatasync calls seen per file.
	syncs: HashMap<PathBuf, usize>,
	// When set: at the next msync build the disk image a power loss would leave at that instant.
	crash_at_next_msync: Option<(PathBuf, fn(&str, usize) -> bool)>,
	crash_taken: bool,
}

static SHADOW: Mutex<Option<Shadow>> = Mutex::new(None);

impl Shadow {
	fn tracked(&self, path: &Path) -> bool {
		path.starts_with(&self.root)
	}

	fn file_synced(&mut self, path: PathBuf) {
		if !self.tracked(&path) {
			return
		}
		if let Ok(content) = std::fs::read(&path) {
			*self.syncs.entry(path.clone()).or_default() += 1;
			self.durable.insert(path, content);
		}
	}

	fn range_synced(&mut self, path: PathBuf, start: usize, end: usize) {
		if !self.tracked(&path) {
			return
		}
		let Ok(content) = std::fs::read(&path) else { return };
		let end = end.min(content.len());
		if start >= end {
			return
		}
		let durable = self.durable.entry(path).or_default();
		if durable.len() < content.len() {
			durable.resize(content.len(), 0);
		}
		durable[start..end].copy_from_slice(&content[start..end]);
	}

	// The directory as a power loss leaves it: log files keep what was synced and nothing of the
	// unsynced tail; every page of a table file is either its durable or its current version.
	fn crash_image(&self, dest: &Path, page_reached_disk: fn(&str, usize) -> bool) {
		std::fs::create_dir_all(dest).unwrap();
		for entry in std::fs::read_dir(&self.root).unwrap() {
			let entry = entry.unwrap();
			let name = entry.file_name().to_str().unwrap().to_string();
			if name == "lock" {
				continue
			}
			let path = entry.path();
			let current = std::fs::read(&path).unwrap();
			let image = if name.starts_with("log") {
				self.durable.get(&path).cloned().unwrap_or_default()
			} else if name.starts_with("index_") ||
				name.starts_with("table_") ||
				name.starts_with("refcount_")
			{
				let mut image = vec![0u8; current.len()];
				if let Some(durable) = self.durable.get(&path) {
					let n = durable.len().min(image.len());
					image[..n].copy_from_slice(&durable[..n]);
				}
				for page in 0..(current.len() + PAGE - 1) / PAGE {
					if page_reached_disk(&name, page) {
						let range = page * PAGE..((page + 1) * PAGE).min(current.len());
						image[range.clone()].copy_from_slice(&current[range]);
					}
				}
				image
			} else {
				current
			};
			std::fs::write(dest.join(&name), image).unwrap();
		}
	}
}

fn on_fd_synced(fd: c_int) {
	let mut guard = SHADOW.lock().unwrap();
	if let Some(shadow) = guard.as_mut() {
		if let Ok(path) = std::fs::read_link(format!("/proc/self/fd/{fd}")) {
			shadow.file_synced(path);
		}
	}
}

// The file ranges behind the mapped range [addr, addr + len).
fn mapped_files(addr: usize, len: usize) -> Vec<(PathBuf, usize, usize)> {
	let mut result = Vec::new();
	let maps = std::fs::read_to_string("/proc/self/maps").unwrap();
	for line in maps.lines() {
		let mut fields = line.splitn(6, ' ');
		let range = fields.next().unwrap();
		let _perms = fields.next();
		let offset = usize::from_str_radix(fields.next().unwrap(), 16).unwrap();
		let _dev = fields.next();
		let _inode = fields.next();
		let path = fields.next().unwrap_or("").trim();
		if !path.starts_with('/') {
			continue
		}
		let (start, end) = range.split_once('-').unwrap();
		let start = usize::from_str_radix(start, 16).unwrap();
		let end = usize::from_str_radix(end, 16).unwrap();
		let from = start.max(addr);
		let to = end.min(addr + len);
		if from < to {
			result.push((PathBuf::from(path), offset + (from - start), offset + (to - start)));
		}
	}
	result
}

fn before_msync() {
	let mut guard = SHADOW.lock().unwrap();
	if let Some(shadow) = guard.as_mut() {
		if let Some((dest, chooser)) = shadow.crash_at_next_msync.take() {
			shadow.crash_image(&dest, chooser);
			shadow.crash_taken = true;
		}
	}
}

fn after_msync(addr: usize, len: usize) {
	let mut guard = SHADOW.lock().unwrap();
	if let Some(shadow) = guard.as_mut() {
		for (path, start, end) in mapped_files(addr, len) {
			shadow.range_synced(path, start, end);
		}
	}
}

#[no_mangle]
pub unsafe extern "C" fn msync(addr: *mut c_void, len: usize, flags: c_int) -> c_int {
	before_msync();
	let r = libc::syscall(libc::SYS_msync, addr, len, flags) as c_int;
	if r == 0 {
		after_msync(addr as usize, len);
	}
	r
}

#[no_mangle]
pub unsafe extern "C" fn fsync(fd: c_int) -> c_int {
	let r = libc::syscall(libc::SYS_fsync, fd) as c_int;
	if r == 0 {
		on_fd_synced(fd);
	}
	r
}

#[no_mangle]
pub unsafe extern "C" fn fdatasync(fd: c_int) -> c_int {
	let r = libc::syscall(libc::SYS_fdatasync, fd) as c_int;
	if r == 0 {
		on_fd_synced(fd);
	}
	r
}

fn key(chunk: u16, n: u8) -> [u8; 32] {
	// With a zero salt a uniform key is its own hash: the first 16 bits select the chunk of the
	// 16 bit index.
	let mut k = [n; 32];
	k[0..2].copy_from_slice(&chunk.to_be_bytes());
	k
}

// Nothing that was not synced reached the disk.
fn page_reached_disk(_name: &str, _page: usize) -> bool {
	false
}

fn options(path: &Path) -> Options {
	let mut options = Options::with_columns(path, 1);
	options.columns[0].uniform = true;
	options.salt = Some([0u8; 32]);
	options.with_background_thread = false;
	assert!(options.sync_wal && options.sync_data);
	options
}

fn value(n: u8) -> Vec<u8> {
	vec![n; 40]
}

#[test]
fn index_in_the_reindex_queue_is_not_flushed_before_the_log_is_truncated() {
	let tmp = tempfile::tempdir().unwrap();
	let path = tmp.path().canonicalize().unwrap().join("db");
	let crash_path = tmp.path().canonicalize().unwrap().join("after_power_loss");
	*SHADOW.lock().unwrap() = Some(Shadow {
		root: path.clone(),
		durable: HashMap::new(),
		syncs: HashMap::new(),
		crash_at_next_msync: None,
		crash_taken: false,
	});

	let k = key(0x4000, 0xee);
	let db = Db::open_or_create(&options(&path)).unwrap();

	// T0: 64 keys, chunk 0 of index_00_16 is full.
	db.commit((0..64u8).map(|n| (0u8, key(0, n).to_vec(), Some(value(n))))).unwrap();
	db.process_commits().unwrap();
	db.flush_logs().unwrap();
	db.enact_logs().unwrap();
	db.clean_logs().unwrap();
	assert!(path.join("index_00_16").exists());
	assert!(!path.join("index_00_17").exists());

	// T1: planned against index_00_16.
	db.commit(vec![(0u8, k.to_vec(), Some(value(0xee)))]).unwrap();
	db.process_commits().unwrap();
	// T2: chunk 0 overflows, index_00_17 becomes the current index.
	db.commit(vec![(0u8, key(0, 64).to_vec(), Some(value(64)))]).unwrap();
	db.process_commits().unwrap();
	// Log synced, records enacted, tables flushed, log truncated.
	db.flush_logs().unwrap();
	db.enact_logs().unwrap();
	assert!(path.join("index_00_17").exists(), "the reindex has started");
	db.clean_logs().unwrap();
	assert_eq!(db.get(0, &k).unwrap(), Some(value(0xee)));

	// Power loss.
	{
		let guard = SHADOW.lock().unwrap();
		let shadow = guard.as_ref().unwrap();
		for entry in std::fs::read_dir(&path).unwrap() {
			let entry = entry.unwrap();
			let name = entry.file_name().to_str().unwrap().to_string();
			if name.starts_with("log") {
				assert_eq!(entry.metadata().unwrap().len(), 0, "{name} is truncated");
				assert!(
					shadow.durable.get(&entry.path()).map_or(true, |d| d.is_empty()),
					"the truncation of {name} is durable"
				);
			}
			if name.starts_with("index_") || name.starts_with("table_") {
				let current = std::fs::read(entry.path()).unwrap();
				let durable = shadow.durable.get(&entry.path()).cloned().unwrap_or_default();
				// The first 16 KiB of an index file hold statistics, they are not logged.
				let skip = if name.starts_with("index_") { 16 * 1024 } else { 0 };
				let unsynced_pages = (0..current.len() / PAGE)
					.filter(|p| (p + 1) * PAGE > skip)
					.filter(|p| {
						let range = p * PAGE..(p + 1) * PAGE;
						durable.get(range.clone()).map_or(
							current[range.clone()].iter().any(|b| *b != 0),
							|d| d != &current[range.clone()],
						)
					})
					.count();
				eprintln!("{name}: {unsynced_pages} page(s) differ from the durable image, all logs are truncated");
			}
		}
		shadow.crash_image(&crash_path, page_reached_disk);
	}
	*SHADOW.lock().unwrap() = None;
	// The original is not used any more (dropping it later does not matter).

	// Recovery from what the power loss left on the disk.
	let recovered = Db::open(&options(&crash_path)).unwrap();
	for n in 0..=64u8 {
		assert_eq!(recovered.get(0, &key(0, n)).unwrap(), Some(value(n)), "T0/T2 key {n}");
	}
	assert_eq!(
		recovered.get(0, &k).unwrap(),
		Some(value(0xee)),
		"T1 is lost: its log was synced, enacted and truncated, the later T2 survived, \
		 but the index it was written to (in the reindex queue) was never flushed"
	);
	drop(recovered);
	drop(db);
}
