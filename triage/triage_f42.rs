// F42 (C09, C05): a lookup that runs while the last batch of an index growth is enacted misses a
// key that was present the whole time.
//
// HashColumn::get searches the current index first and takes the reindex-queue lock only afterwards:
//
//     let tables = self.tables.read();
//     if let Some(..) = self.get_in_index(key, &tables.index, ..)? { return .. }   // (1) not here yet
//     for entry in &self.reindex.read().queue { .. }                               // (2) not here any more
//
// Between (1) and (2) the log worker can move the key into the current index and the commit worker
// can enact the DropTable record (`drop_index` takes only `reindex.write()`, which nobody holds):
// the reader finds the queue empty and answers None.
//
// The window has no call in it that a test could slow down, so the schedule is imposed from outside
// with gdb in non-stop mode (bin: see triage_f42.gdb): the reader thread is held at (2) while the
// main thread runs the growth to completion with the stepping API; `f42_growth_done` releases it.
// Without gdb the same test passes (the reader finishes before the growth is run).
//
//   cargo test --offline --features instrumentation --test triage_f42 --no-run
//   gdb -batch -x tests/triage_f42.gdb --args target/debug/deps/triage_f42-<hash> --test-threads=1 --nocapture
#![cfg(feature = "instrumentation")]

use parity_db::{Db, Options};
use std::sync::Arc;

fn options(path: &std::path::Path) -> Options {
	let mut options = Options::with_columns(path, 1);
	options.columns[0].uniform = true;
	options.always_flush = true;
	options.with_background_thread = false;
	options.salt = Some(Default::default());
	options
}

// Same page of i16 for all i; distinct partial keys.
fn key(i: u8) -> Vec<u8> {
	let mut k = [0u8; 32];
	k[2] = i << 1;
	k[31] = i;
	k.to_vec()
}

fn stages(db: &Db) {
	db.process_commits().unwrap();
	db.flush_logs().unwrap();
	db.enact_logs().unwrap();
	db.clean_logs().unwrap();
}

#[inline(never)]
#[no_mangle]
pub extern "C" fn f42_growth_done() {
	std::hint::black_box(());
}

#[test]
fn lookup_during_the_last_growth_batch_misses_a_present_key() {
	let dir = tempfile::tempdir().unwrap();
	let db = Arc::new(Db::open_or_create(&options(dir.path())).unwrap());

	// Fill one page of i16, then grow 16 -> 17 with a 65th key.
	db.commit((0..64u8).map(|i| (0u8, key(i), Some(vec![i; 4])))).unwrap();
	stages(&db);
	db.commit(vec![(0u8, key(64), Some(vec![64u8; 4]))]).unwrap();
	stages(&db);
	// i16 is queued for migration and still holds key(0); no batch has run yet.

	let reader = {
		let db = db.clone();
		std::thread::spawn(move || db.get(0, &key(0)).unwrap())
	};
	// (under gdb the reader is now parked between its two searches)
	std::thread::sleep(std::time::Duration::from_secs(2));

	// The growth runs to completion: entries are moved, the old table is dropped.
	for _ in 0..8 {
		db.process_reindex().unwrap();
		stages(&db);
	}
	f42_growth_done();

	let seen = reader.join().unwrap();
	assert_eq!(db.get(0, &key(0)).unwrap(), Some(vec![0u8; 4]), "the key is there after the growth");
	assert_eq!(seen, Some(vec![0u8; 4]), "the key was there the whole time, the concurrent lookup missed it");
}
