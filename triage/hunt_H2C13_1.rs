#![cfg(feature = "instrumentation")]
//! C13: a log chain with a damaged record in the middle is rejected from that record on.
//! If the open that rejected it is interrupted (I/O error / crash) while it truncates the log
//! files, the next open must still not apply anything that follows the damaged record.
//!
//! Chain: log0 = [r1 {k1}], log1 = [r2 {k2}], log2 = [r3 {k3}], none enacted. One bit of r2 is
//! flipped. For every position N of an I/O fault during `Db::open` the directory left behind is
//! opened again (no faults) and must hold a prefix of r1, r2, r3 - and since r2 is damaged, never k3.
//!
//! cargo test --offline --features instrumentation --test hunt_H2C13_1

use parity_db::{set_number_of_allowed_io_operations, Db, Options};
use std::path::Path;

fn options(path: &Path) -> Options {
	let mut o = Options::with_columns(path, 1);
	o.with_background_thread = false;
	o.always_flush = true;
	o.salt = Some([0; 32]);
	o
}

fn copy_dir(from: &Path, to: &Path) {
	std::fs::create_dir_all(to).unwrap();
	for e in std::fs::read_dir(from).unwrap() {
		let e = e.unwrap();
		if e.file_name() == "lock" {
			continue
		}
		std::fs::copy(e.path(), to.join(e.file_name())).unwrap();
	}
}

fn log_sizes(dir: &Path) -> Vec<(String, u64)> {
	let mut v: Vec<_> = std::fs::read_dir(dir)
		.unwrap()
		.map(|e| e.unwrap())
		.filter(|e| e.file_name().to_str().unwrap().starts_with("log"))
		.map(|e| (e.file_name().to_str().unwrap().to_string(), e.metadata().unwrap().len()))
		.collect();
	v.sort();
	v
}

/// Crash image with three unenacted records in three log files.
fn make_image(image: &Path) {
	let live = tempfile::tempdir().unwrap();
	let db = Db::open_or_create(&options(live.path())).unwrap();
	for (k, v) in [(b"k1", b"v1"), (b"k2", b"v2"), (b"k3", b"v3")] {
		db.commit(vec![(0u8, k.to_vec(), Some(v.to_vec()))]).unwrap();
		db.process_commits().unwrap();
		db.flush_logs().unwrap();
	}
	copy_dir(live.path(), image);
	drop(db);
}

fn state(db: &Db) -> [bool; 3] {
	[
		db.get(0, b"k1").unwrap() == Some(b"v1".to_vec()),
		db.get(0, b"k2").unwrap() == Some(b"v2".to_vec()),
		db.get(0, b"k3").unwrap() == Some(b"v3".to_vec()),
	]
}

#[test]
fn control_undamaged_chain_is_replayed() {
	let tmp = tempfile::tempdir().unwrap();
	let image = tmp.path().join("image");
	make_image(&image);
	assert_eq!(log_sizes(&image).iter().filter(|(_, l)| *l > 0).count(), 3, "three log files");
	let db = Db::open(&options(&image)).unwrap();
	assert_eq!(state(&db), [true, true, true]);
}

#[test]
fn control_damaged_middle_record_without_fault() {
	let tmp = tempfile::tempdir().unwrap();
	let image = tmp.path().join("image");
	make_image(&image);
	damage_log1(&image);
	let db = Db::open(&options(&image)).unwrap();
	assert_eq!(state(&db), [true, false, false]);
}

fn damage_log1(image: &Path) {
	// log1 holds record 2; flip one bit of its CRC (last byte) - the record id stays 2.
	let p = image.join("log1");
	let mut bytes = std::fs::read(&p).unwrap();
	assert_eq!(bytes[0], 1);
	assert_eq!(u64::from_le_bytes(bytes[1..9].try_into().unwrap()), 2);
	let n = bytes.len();
	bytes[n - 1] ^= 0x10;
	std::fs::write(&p, bytes).unwrap();
}

#[test]
fn interrupted_open_must_not_apply_records_after_the_damaged_one() {
	let tmp = tempfile::tempdir().unwrap();
	let image = tmp.path().join("image");
	make_image(&image);
	damage_log1(&image);

	let mut violations = Vec::new();
	for n in 0..10_000usize {
		let dir = tmp.path().join(format!("run{n}"));
		copy_dir(&image, &dir);

		// First open: the n+1-th I/O operation and everything after it fails.
		set_number_of_allowed_io_operations(n);
		let first = Db::open(&options(&dir));
		set_number_of_allowed_io_operations(usize::MAX);
		let completed = first.is_ok();
		if let Ok(db) = first {
			assert_eq!(state(&db), [true, false, false], "fault position {n}");
			// Do not run the shutdown path, the directory is taken as it is.
			std::mem::forget(db);
		}
		let left = log_sizes(&dir);

		// Second open of whatever the first one left behind.
		let again = tmp.path().join(format!("again{n}"));
		copy_dir(&dir, &again);
		let db = Db::open(&options(&again)).unwrap();
		let s = state(&db);
		drop(db);
		let prefix = matches!(s, [false, false, false] | [true, false, false]);
		if !prefix {
			violations.push(format!(
				"fault at I/O operation {n}: logs left {left:?}; after reopen k1={} k2={} k3={}",
				s[0], s[1], s[2]
			));
		}
		std::fs::remove_dir_all(&dir).ok();
		std::fs::remove_dir_all(&again).ok();
		if completed {
			break
		}
	}
	assert!(
		violations.is_empty(),
		"record 3 applied although record 2 was rejected:\n{}",
		violations.join("\n")
	);
}
