// H5C07 finding 1 (liveness, borderline for C07): `Db::get` of a key with a positive count never
// returns when it is called from the callback of `Db::iter_column_while` on the same column while
// the log worker wants to grow the index of that column.
//
// `HashColumn::iter_values` keeps `tables.read()` for the whole iteration (callback included),
// `HashColumn::get` takes `tables.read()` again. Between the two the log worker reaches
// `HashColumn::trigger_reindex` and parks in `RwLockUpgradableReadGuard::upgrade(tables)`: a
// parking_lot lock does not hand out new read locks while a writer waits, so the second read lock
// of the iterating thread waits for the log worker, which waits for the first one.
//
// The schedule is imposed with the stepping API (the log stage is run by a second thread of the
// test) and a `log::Log` hook that tells when the log stage is about to grow the index.
//
// Run: cargo test --offline --features instrumentation --test hunt_H5C07_1

use parity_db::{ColumnOptions, Db, Operation, Options};
use std::sync::{
	atomic::{AtomicBool, Ordering},
	mpsc, Arc,
};

static CHUNK_FULL: AtomicBool = AtomicBool::new(false);

struct Hook;
impl log::Log for Hook {
	fn enabled(&self, _: &log::Metadata) -> bool {
		true
	}
	fn log(&self, record: &log::Record) {
		// `log::debug!("{}: Index chunk full {}")` in `HashColumn::write_plan_new` is the
		// statement right before `trigger_reindex`.
		if record.target() == "parity-db" && format!("{}", record.args()).contains("Index chunk full") {
			CHUNK_FULL.store(true, Ordering::SeqCst);
		}
	}
	fn flush(&self) {}
}

fn key(i: u8) -> Vec<u8> {
	// uniform keys with the zero salt: the first two bytes choose the chunk of a 16 bit index
	let mut k = vec![0u8; 32];
	k[0] = 0x12;
	k[1] = 0x34;
	k[7] = i;
	k[20] = i;
	k
}

fn value(i: u8) -> Vec<u8> {
	vec![i; 40]
}

#[test]
fn get_from_the_iteration_callback_while_the_index_grows() {
	log::set_boxed_logger(Box::new(Hook)).unwrap();
	log::set_max_level(log::LevelFilter::Debug);

	let dir = tempfile::tempdir().unwrap();
	let mut options = Options::with_columns(dir.path(), 1);
	options.columns[0] =
		ColumnOptions { preimage: true, ref_counted: true, uniform: true, ..Default::default() };
	options.salt = Some([0; 32]);
	options.with_background_thread = false;
	let db = Arc::new(Db::open_or_create(&options).unwrap());

	// 64 keys fill one chunk of the index. Everything is enacted.
	db.commit_changes((0..64u8).map(|i| (0, Operation::Set(key(i), value(i))))).unwrap();
	db.process_commits().unwrap();
	db.flush_logs().unwrap();
	db.enact_logs().unwrap();
	db.clean_logs().unwrap();
	for i in 0..64u8 {
		assert_eq!(db.get(0, &key(i)).unwrap(), Some(value(i)));
	}

	// One more key of the same chunk is accepted: the log stage will have to grow the index.
	db.commit_changes([(0, Operation::Set(key(64), value(64)))]).unwrap();

	let (done_tx, done_rx) = mpsc::channel::<&'static str>();

	let reader = {
		let db = db.clone();
		let done_tx = done_tx.clone();
		std::thread::spawn(move || {
			let mut first = true;
			let mut worker = None;
			let mut count = 0;
			db.iter_column_while(0, |state| {
				count += 1;
				if first {
					first = false;
					// The log stage runs now, on its own thread, as it would with background threads.
					let db2 = db.clone();
					let done_tx = done_tx.clone();
					worker = Some(std::thread::spawn(move || {
						db2.process_commits().unwrap();
						done_tx.send("log stage").unwrap();
					}));
					// Wait until it is about to grow the index, and a bit more.
					let start = std::time::Instant::now();
					while !CHUNK_FULL.load(Ordering::SeqCst) &&
						start.elapsed() < std::time::Duration::from_secs(5)
					{
						std::thread::sleep(std::time::Duration::from_millis(5));
					}
					std::thread::sleep(std::time::Duration::from_millis(300));
					// All 64 keys have count 1: each of them is readable.
					let i = state.value[0];
					assert_eq!(db.get(0, &key(i)).unwrap(), Some(value(i)));
				}
				true
			})
			.unwrap();
			assert_eq!(count, 64);
			worker.unwrap().join().unwrap();
			done_tx.send("iteration").unwrap();
		})
	};

	let mut finished = Vec::new();
	while finished.len() < 2 {
		match done_rx.recv_timeout(std::time::Duration::from_secs(15)) {
			Ok(who) => finished.push(who),
			Err(_) => break,
		}
	}
	assert!(
		finished.len() == 2,
		"deadlock: `Db::get` called from the callback of `iter_column_while` has not returned after \
		 15 s (finished: {:?}); the log stage is parked in `trigger_reindex`, the iteration keeps the \
		 read lock it waits for",
		finished
	);
	reader.join().unwrap();
	db.flush_logs().unwrap();
	db.enact_logs().unwrap();
	assert_eq!(db.get(0, &key(64)).unwrap(), Some(value(64)));
}
