#![cfg(feature = "instrumentation")]
//! H2C15 finding 1: the log worker decides that a queued tree removal does not have to wait
//! (`process_commits`: no `TreeReader` of that tree is locked), and only later, in
//! `IndexedChangeSet::write_plan`, takes `tree.write()`. A client that locks its reader between
//! the two parks the log worker on that lock. The client holds the guard while it commits (that
//! is what the guard is for: building on top of a tree that is being pruned), and as soon as the
//! commit queue is over its 16 MiB limit `commit` waits for the log worker, which waits for the
//! guard: nobody moves again. Commits never return, nothing is logged any more.
//!
//! Only public API is used. The schedule is imposed through the `log` facade: the window between
//! the check and the lock contains a `log::debug!` call and this test's logger is slow for that
//! one message (a preempted log worker is an ordinary schedule).
//!
//! Run: cargo test --offline --features instrumentation --test hunt_H2C15_1 -- --test-threads=1

use parity_db::{ColumnOptions, Db, NewNode, NodeRef, Operation, Options};
use std::{
	sync::{
		atomic::{AtomicBool, Ordering},
		mpsc, Arc, Condvar, Mutex,
	},
	time::Duration,
};

const TREE_COL: u8 = 0;
const DATA_COL: u8 = 1;
const WATCHDOG: Duration = Duration::from_secs(60);

// ---- the schedule hook --------------------------------------------------------------------------

#[derive(Default)]
struct Gate {
	// 0: idle, 1: armed, 2: the log worker is parked in the window, 3: released
	state: Mutex<u8>,
	cv: Condvar,
}

struct HookLogger {
	gate: Gate,
	// Message prefix that parks the calling thread while the gate is armed.
	prefix: Mutex<String>,
	enabled: AtomicBool,
}

impl log::Log for HookLogger {
	fn enabled(&self, _: &log::Metadata) -> bool {
		true
	}
	fn log(&self, record: &log::Record) {
		if !self.enabled.load(Ordering::SeqCst) {
			return
		}
		let msg = record.args().to_string();
		if !msg.starts_with(self.prefix.lock().unwrap().as_str()) {
			return
		}
		let mut state = self.gate.state.lock().unwrap();
		if *state != 1 {
			return
		}
		*state = 2;
		self.gate.cv.notify_all();
		while *state != 3 {
			state = self.gate.cv.wait(state).unwrap();
		}
	}
	fn flush(&self) {}
}

fn logger() -> &'static HookLogger {
	static LOGGER: std::sync::OnceLock<&'static HookLogger> = std::sync::OnceLock::new();
	LOGGER.get_or_init(|| {
		let l: &'static HookLogger = Box::leak(Box::new(HookLogger {
			gate: Gate::default(),
			prefix: Mutex::new(String::new()),
			enabled: AtomicBool::new(false),
		}));
		log::set_logger(l).unwrap();
		log::set_max_level(log::LevelFilter::Debug);
		l
	})
}

impl HookLogger {
	fn arm(&self, prefix: &str) {
		*self.prefix.lock().unwrap() = prefix.to_string();
		*self.gate.state.lock().unwrap() = 1;
		self.enabled.store(true, Ordering::SeqCst);
	}
	// False if no thread logged the message in time (an implementation without that window).
	fn wait_parked(&self, patience: Duration) -> bool {
		let mut state = self.gate.state.lock().unwrap();
		let deadline = std::time::Instant::now() + patience;
		while *state != 2 {
			let left = deadline.saturating_duration_since(std::time::Instant::now());
			if left.is_zero() {
				*state = 0;
				return false
			}
			state = self.gate.cv.wait_timeout(state, left).unwrap().0;
		}
		true
	}
	fn release(&self) {
		self.enabled.store(false, Ordering::SeqCst);
		*self.gate.state.lock().unwrap() = 3;
		self.gate.cv.notify_all();
	}
	fn disarm(&self) {
		self.enabled.store(false, Ordering::SeqCst);
		*self.gate.state.lock().unwrap() = 0;
	}
}

// ---- the scenario -------------------------------------------------------------------------------

fn options(path: &std::path::Path) -> Options {
	let mut options = Options::with_columns(path, 2);
	options.columns[TREE_COL as usize] =
		ColumnOptions { multitree: true, allow_direct_node_access: true, ..Default::default() };
	options
}

fn tree() -> NewNode {
	NewNode {
		data: b"root".to_vec(),
		children: vec![
			NodeRef::New(NewNode { data: b"leaf one".to_vec(), children: vec![] }),
			NodeRef::New(NewNode { data: b"leaf two".to_vec(), children: vec![] }),
		],
	}
}

fn big_value(n: u8) -> Vec<u8> {
	vec![n; 9 * 1024 * 1024]
}

/// `lock_in_window`: the client locks its reader after the log worker has looked (the schedule
/// under test). Otherwise it locks it before the removal is even committed (control: the log
/// worker sees the lock and postpones the removal).
fn scenario(lock_in_window: bool) {
	let hook = logger();
	hook.disarm();
	let tmp = tempfile::tempdir().unwrap();
	let options = options(tmp.path());
	let db = Arc::new(Db::open_or_create(&options).unwrap());
	let root_key = b"tree one".to_vec();

	// Commit 1: the tree.
	db.commit_changes(vec![(TREE_COL, Operation::InsertTree(root_key.clone(), tree()))]).unwrap();

	let (done_tx, done_rx) = mpsc::channel::<&'static str>();
	let client = {
		let db = db.clone();
		let root_key = root_key.clone();
		std::thread::spawn(move || {
			let reader = db.get_tree(TREE_COL, &root_key).unwrap().expect("tree exists");
			let mut guard = None;
			if !lock_in_window {
				guard = Some(reader.read());
			}

			// Commit 2: the tree is pruned. The log worker stops between its "is the tree in
			// use?" check and the removal itself.
			if lock_in_window {
				hook.arm("Processing commit 2,");
			}
			db.commit_changes(vec![(TREE_COL, Operation::DereferenceTree(root_key.clone()))])
				.unwrap();
			if lock_in_window {
				if hook.wait_parked(Duration::from_secs(20)) {
					// An implementation that takes the tree lock together with its check does not
					// let the client in here: do not insist, the worker is held by this test.
					guard = reader.try_read_for(Duration::from_secs(2));
					hook.release();
				}
			}

			// The client works on the tree it has locked (if it came too late the tree is gone) ...
			let guard = guard.unwrap_or_else(|| reader.read());
			if let Some((data, children)) = guard.get_root().unwrap() {
				assert_eq!(data, b"root".to_vec());
				assert_eq!(children.len(), 2);
			}
			done_tx.send("locked").unwrap();

			// ... and commits while it holds the guard. 27 MiB in three transactions: the third
			// one finds 18 MiB in the queue.
			for n in 0..3u8 {
				db.commit(vec![(DATA_COL, vec![n; 8], Some(big_value(n)))]).unwrap();
				done_tx.send("commit returned").unwrap();
			}
			drop(guard);
			done_tx.send("unlocked").unwrap();
		})
	};

	let mut seen = Vec::new();
	loop {
		match done_rx.recv_timeout(WATCHDOG) {
			Ok(step) => {
				seen.push(step);
				if step == "unlocked" {
					break
				}
			},
			Err(_) => panic!(
				"a commit call did not return within {WATCHDOG:?} (steps completed: {seen:?}): the \
				 log worker waits for the reader lock of the committing client and the client \
				 waits for the log worker to drain the commit queue",
			),
		}
	}
	client.join().unwrap();

	// Everything drains and the handle can be dropped; the data is there afterwards.
	let db = Arc::try_unwrap(db).ok().expect("no other owner");
	let (drop_tx, drop_rx) = mpsc::channel();
	std::thread::spawn(move || {
		drop(db);
		let _ = drop_tx.send(());
	});
	drop_rx.recv_timeout(WATCHDOG).expect("Db::drop returns");
	let db = Db::open(&options).unwrap();
	for n in 0..3u8 {
		assert_eq!(db.get(DATA_COL, &[n; 8]).unwrap().map(|v| v.len()), Some(9 * 1024 * 1024));
	}
	assert!(db.get_tree(TREE_COL, &root_key).unwrap().is_none(), "the tree was pruned");
}

#[test]
fn control_reader_locked_before_the_removal_is_committed() {
	scenario(false);
}

#[test]
fn reader_locked_between_the_check_and_the_removal() {
	scenario(true);
}
