// HC02 finding 3: the header entry of a btree column (root address + depth, slot 1 of value
// table 0) is written outside the write-ahead log the first time the column is opened:
// create file -> set_len -> mmap -> write slots 0 and 1. Whether that initialisation is needed
// is decided later by "does the file exist" (ValueTable::is_init). A process that stops after the
// file was created but before the two slots were written leaves a table that every later open
// takes for initialised, with an all-zero header slot: every read and every commit of the btree
// column then fails with Corruption("Invalid header length.") for good.
//
// Run: cargo test --offline --features instrumentation --test hunt_HC02_3 -- --nocapture
#![cfg(feature = "instrumentation")]

use parity_db::{set_number_of_allowed_io_operations, Db, Options};
use std::path::Path;

fn options(path: &Path) -> Options {
	let mut o = Options::with_columns(path, 1);
	o.columns[0].btree_index = true;
	o.with_background_thread = false; // pipeline stages are driven by hand
	o.always_flush = true;
	o
}

fn copy_dir(from: &Path, to: &Path) {
	std::fs::create_dir_all(to).unwrap();
	for e in std::fs::read_dir(from).unwrap() {
		let e = e.unwrap();
		if e.file_name() == "lock" {
			continue
		}
		std::fs::copy(e.path(), to.join(e.file_name())).unwrap();
	}
}

fn listing(dir: &Path) -> Vec<(String, u64)> {
	let mut v: Vec<_> = std::fs::read_dir(dir)
		.unwrap()
		.map(|e| e.unwrap())
		.map(|e| (e.file_name().to_string_lossy().into_owned(), e.metadata().unwrap().len()))
		.collect();
	v.sort();
	v
}

// Opens (creates) the database allowing `allowed` file operations, then no more: from the
// failing operation on nothing reaches the disk any more, which is what a process stop looks like.
// Returns the directory image, or None when the creation ran to completion.
fn crash_image_during_creation(allowed: usize) -> Option<tempfile::TempDir> {
	let live = tempfile::tempdir().unwrap();
	set_number_of_allowed_io_operations(allowed);
	let r = Db::open_or_create(&options(live.path()));
	let image = if r.is_err() {
		let image = tempfile::tempdir().unwrap();
		copy_dir(live.path(), image.path());
		Some(image)
	} else {
		None
	};
	set_number_of_allowed_io_operations(usize::MAX);
	image
}

// What the property demands of the recovered (still empty) database.
fn check_usable(dir: &Path) -> std::result::Result<(), String> {
	let db = Db::open_or_create(&options(dir)).map_err(|e| format!("reopen: {e:?}"))?;
	match db.get(0, b"k") {
		Ok(None) => (),
		other => return Err(format!("get on the empty database: {other:?}")),
	}
	db.commit(vec![(0u8, b"k".to_vec(), Some(b"v".to_vec()))]).map_err(|e| format!("{e:?}"))?;
	db.process_commits().map_err(|e| format!("process_commits: {e:?}"))?;
	db.flush_logs().map_err(|e| format!("flush_logs: {e:?}"))?;
	db.enact_logs().map_err(|e| format!("enact_logs: {e:?}"))?;
	match db.get(0, b"k") {
		Ok(Some(v)) if v == b"v" => Ok(()),
		other => Err(format!("get after commit: {other:?}")),
	}
}

#[test]
fn crash_while_creating_a_btree_column_leaves_a_usable_database() {
	let mut failures = Vec::new();
	let mut points = 0;
	for allowed in 0..200 {
		let Some(image) = crash_image_during_creation(allowed) else { break };
		points += 1;
		let files = listing(image.path());
		let r = check_usable(image.path());
		println!("stop after {allowed} file operations: files={files:?} -> {r:?}");
		if let Err(e) = r {
			failures.push((allowed, files, e));
		}
	}
	assert!(points > 0);
	assert!(failures.is_empty(), "database unusable after a crash during creation: {failures:#?}");
}
