// Property C12: recovery yields a prefix of the committed transactions that contains every
// transaction whose log had been synced; log files are cleaned in order, after the tables were
// flushed.
//
// History: T1 = {K=v1, A}, T2 = {K=v2, B}, T3 = {C}, one log file each (L1, L2, L3), all three
// synced. T1 is enacted, L1 waits for cleanup. The cleanup of L1 fails (I/O fault on the log file in
// `Log::clean_logs`, before it is truncated). The worker error shuts the database down: the commit
// worker finishes the log file it is reading (L2), the shutdown in error state flushes the tables
// and truncates the logs that are waiting for cleanup (L2) - but L1 is not among them any more, it
// is still in the directory with T1 in it. L3 is synced and waits in the read queue.
// Power loss (directory copied), recovery, read.
//
// cargo test --offline --features instrumentation --test hunt_H2C12_3 -- --nocapture
#![cfg(feature = "instrumentation")]

use parity_db::{set_number_of_allowed_io_operations, Db, Options};
use std::path::Path;

fn copy_dir(from: &Path, to: &Path) {
	std::fs::create_dir_all(to).unwrap();
	for e in std::fs::read_dir(from).unwrap() {
		let e = e.unwrap();
		if e.file_name() == "lock" {
			continue
		}
		std::fs::copy(e.path(), to.join(e.file_name())).unwrap();
	}
}

fn key(b: u8) -> Vec<u8> {
	vec![b; 32]
}

fn logs(dir: &Path) -> String {
	let mut v: Vec<String> = std::fs::read_dir(dir)
		.unwrap()
		.map(|e| e.unwrap())
		.filter(|e| e.file_name().to_str().unwrap().starts_with("log"))
		.map(|e| format!("{}:{}B", e.file_name().to_str().unwrap(), e.metadata().unwrap().len()))
		.collect();
	v.sort();
	v.join(" ")
}

/// `None`: the fault budget was large enough for the cleanup to succeed.
fn scenario(fault_after: usize) -> Option<String> {
	let dir = tempfile::tempdir().unwrap();
	let path = dir.path().join("db");
	let mut options = Options::with_columns(&path, 1);
	options.salt = Some([1; 32]);
	options.with_background_thread = false;
	options.always_flush = true;
	assert!(options.sync_wal && options.sync_data);
	let (v1, v2) = (vec![0x01u8; 100], vec![0x02u8; 100]);

	let db = Db::open_or_create(&options).unwrap();
	// T1: logged, synced, enacted; its log file L1 waits for cleanup.
	db.commit(vec![(0u8, key(b'K'), Some(v1.clone())), (0u8, key(b'A'), Some(vec![0xaa; 100]))])
		.unwrap();
	db.process_commits().unwrap();
	db.flush_logs().unwrap();
	db.enact_logs().unwrap();
	// T2 and T3: logged and synced, one log file each (L2, L3), waiting in the read queue.
	db.commit(vec![(0u8, key(b'K'), Some(v2.clone())), (0u8, key(b'B'), Some(vec![0xbb; 100]))])
		.unwrap();
	db.process_commits().unwrap();
	db.flush_logs().unwrap();
	db.commit(vec![(0u8, key(b'C'), Some(vec![0xcc; 100]))]).unwrap();
	db.process_commits().unwrap();
	db.flush_logs().unwrap();

	// Cleanup worker: flushes the tables, then fails on the log file.
	set_number_of_allowed_io_operations(fault_after);
	let cleaned = db.clean_logs();
	set_number_of_allowed_io_operations(usize::MAX);
	if cleaned.is_ok() {
		return None
	}
	// The error shuts the workers down. Commit worker: runs until the end of the log file it reads.
	db.enact_logs().unwrap();
	// Shutdown in error state (`DbInner::kill_logs`): flush the tables, truncate the logs that are
	// waiting for cleanup. Same calls as `clean_all_logs`.
	db.clean_logs().unwrap();
	let on_disk = logs(&path);

	// Power loss.
	let crash = dir.path().join("crash");
	copy_dir(&path, &crash);
	drop(db);

	let mut options2 = Options::with_columns(&crash, 1);
	options2.salt = Some([1; 32]);
	let db2 = Db::open(&options2).unwrap();
	let k = db2.get(0, &key(b'K')).unwrap();
	let state = format!(
		"fault after {fault_after} ops; logs at the power loss: [{on_disk}]; recovered: K={}, A {}, B {}, C {}",
		match &k {
			Some(v) if *v == v1 => "v1",
			Some(v) if *v == v2 => "v2",
			Some(_) => "??",
			None => "none",
		},
		if db2.get(0, &key(b'A')).unwrap().is_some() { "present" } else { "absent" },
		if db2.get(0, &key(b'B')).unwrap().is_some() { "present" } else { "absent" },
		if db2.get(0, &key(b'C')).unwrap().is_some() { "present" } else { "absent" },
	);
	Some(state)
}

#[test]
fn failed_log_cleanup_does_not_break_the_log_sequence() {
	let mut bad = Vec::new();
	for n in 0..64 {
		match scenario(n) {
			None => break,
			Some(state) => {
				println!("{state}");
				// All three transactions were synced before the power loss.
				if !state.ends_with("recovered: K=v2, A present, B present, C present") {
					bad.push(state);
				}
			},
		}
	}
	assert!(
		bad.is_empty(),
		"T1, T2, T3 were all synced, recovery does not yield them:\n{}",
		bad.join("\n")
	);
}
