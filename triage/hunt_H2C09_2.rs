// H2C09 finding 2: log replay starts index growth (`trigger_reindex`) from a record it has not
// verified yet. When the process dies while the record of a commit that grows the index is being
// written, the recovered database keeps an index table in its reindex queue that never got a file.
// Migrating that (empty) table ends with a logged DropTable whose enactment fails with NotFound:
// the commit worker stops and the database refuses every further commit until it is reopened.
//
// Run: cargo test --offline --features instrumentation --test hunt_H2C09_2
#![cfg(feature = "instrumentation")]

use parity_db::{set_number_of_allowed_io_operations, Db, Options};

fn options(path: &std::path::Path) -> Options {
	let mut options = Options::with_columns(path, 1);
	options.columns[0].uniform = true;
	options.salt = Some([0u8; 32]); // identity hash: key bytes choose the index chunk
	options.with_background_thread = false;
	options.always_flush = true;
	options
}

// Keys of the first commit: one per chunk, far away from chunk 0.
fn old_key(i: u32) -> Vec<u8> {
	let mut key = [0u8; 32];
	key[0] = 0x80;
	key[1] = i as u8;
	key[8..12].copy_from_slice(&i.to_le_bytes());
	key[31] = 1;
	key.to_vec()
}

// Keys of the second commit: all share their first 18 bits (zero), differ right below. 64 of them
// fill chunk 0 of the 16 bit index, the next 64 fill chunk 0 of the 17 bit index, the rest goes to
// the 18 bit index: the commit grows the index twice within one log record.
fn new_key(i: u32) -> Vec<u8> {
	let mut key = [0u8; 32];
	key[3] = i as u8;
	key[4] = (i >> 8) as u8 + 1;
	key[8..12].copy_from_slice(&i.to_le_bytes());
	key[31] = 2;
	key.to_vec()
}

const NEW_KEYS: u32 = 140;

fn copy_dir(from: &std::path::Path, to: &std::path::Path) {
	std::fs::create_dir_all(to).unwrap();
	for e in std::fs::read_dir(from).unwrap() {
		let e = e.unwrap();
		if e.file_name() == "lock" {
			continue
		}
		sparse_copy(&e.path(), &to.join(e.file_name()));
	}
}

// Index files are large and almost empty: keep the copy sparse.
fn sparse_copy(from: &std::path::Path, to: &std::path::Path) {
	use std::io::{Read, Seek, SeekFrom, Write};
	let mut src = std::fs::File::open(from).unwrap();
	let len = src.metadata().unwrap().len();
	let mut dst = std::fs::File::create(to).unwrap();
	let mut buf = vec![0u8; 1 << 16];
	let mut pos = 0u64;
	loop {
		let n = src.read(&mut buf).unwrap();
		if n == 0 {
			break
		}
		if buf[..n].iter().any(|b| *b != 0) {
			dst.seek(SeekFrom::Start(pos)).unwrap();
			dst.write_all(&buf[..n]).unwrap();
		}
		pos += n as u64;
	}
	dst.set_len(len).unwrap();
}

// Returns None when `allowed_io` was enough to log the whole record (no crash point left).
fn crash_while_logging(dir: &std::path::Path, allowed_io: usize) -> Option<std::path::PathBuf> {
	crash_while_logging_with(dir, allowed_io, true, NEW_KEYS)
}

// `with_old_data`: commit and fully process 20 other keys first. `new_keys`: size of the commit
// that is being logged when the process dies.
fn crash_while_logging_with(
	dir: &std::path::Path,
	allowed_io: usize,
	with_old_data: bool,
	new_keys: u32,
) -> Option<std::path::PathBuf> {
	let live = dir.join(format!("live{allowed_io}"));
	let image = dir.join(format!("image{allowed_io}"));
	let db = Db::open_or_create(&options(&live)).unwrap();
	if with_old_data {
		db.commit((0..20u32).map(|i| (0u8, old_key(i), Some(vec![i as u8; 16])))).unwrap();
		db.process_commits().unwrap();
		db.flush_logs().unwrap();
		db.enact_logs().unwrap();
		db.clean_logs().unwrap();
	}

	db.commit((0..new_keys).map(|i| (0u8, new_key(i), Some(vec![i as u8; 100])))).unwrap();
	// The process dies at the `allowed_io`-th I/O operation of the log worker.
	set_number_of_allowed_io_operations(allowed_io);
	let r = db.process_commits();
	set_number_of_allowed_io_operations(usize::MAX);
	if r.is_ok() {
		drop(db);
		std::fs::remove_dir_all(&live).unwrap();
		return None
	}
	// What is on disk at that moment is the crash image.
	copy_dir(&live, &image);
	drop(db);
	std::fs::remove_dir_all(&live).unwrap();
	Some(image)
}

fn recover_and_use(image: &std::path::Path, allowed_io: usize) -> Result<(), String> {
	let db = Db::open(&options(image)).map_err(|e| format!("open: {e:?}"))?;
	for i in 0..20u32 {
		if db.get(0, &old_key(i)).unwrap() != Some(vec![i as u8; 16]) {
			return Err(format!("crash point {allowed_io}: old key {i} lost"))
		}
	}
	// Let the background stages run to completion.
	for round in 0..8 {
		let stage = |name: &str, r: parity_db::Result<()>| {
			r.map_err(|e| format!("crash point {allowed_io}, round {round}: {name} failed: {e:?}"))
		};
		stage("process_reindex", db.process_reindex())?;
		stage("flush_logs", db.flush_logs())?;
		stage("enact_logs", db.enact_logs())?;
		stage("clean_logs", db.clean_logs())?;
	}
	db.commit(vec![(0u8, old_key(100), Some(b"after".to_vec()))]).unwrap();
	db.process_commits().map_err(|e| format!("crash point {allowed_io}: commit after recovery: {e:?}"))?;
	for i in 0..20u32 {
		if db.get(0, &old_key(i)).unwrap() != Some(vec![i as u8; 16]) {
			return Err(format!("crash point {allowed_io}: old key {i} lost after reindex"))
		}
	}
	Ok(())
}

// Number of I/O operations the log worker needs to log the second commit completely.
fn total_ops(dir: &std::path::Path) -> usize {
	let (mut lo, mut hi) = (0usize, 1usize << 14); // lo: crashes, hi: succeeds
	while hi - lo > 1 {
		let mid = (lo + hi) / 2;
		match crash_while_logging(dir, mid) {
			Some(image) => {
				std::fs::remove_dir_all(&image).unwrap();
				lo = mid;
			},
			None => hi = mid,
		}
	}
	hi
}

// Stepping API. By default a handful of crash points spread over the logging of the record; set
// H2C09_FULL=1 to try every single one (takes a few minutes; 359 of 723 fail).
#[test]
fn crash_while_logging_a_growing_commit() {
	let dir = tempfile::tempdir().unwrap();
	let total = total_ops(dir.path());
	let points: Vec<usize> = if std::env::var("H2C09_FULL").is_ok() {
		(0..total).collect()
	} else {
		(1..=12).map(|i| total * i / 12 - 1).collect()
	};
	let mut failures = Vec::new();
	for allowed_io in points.iter().cloned() {
		let image = crash_while_logging(dir.path(), allowed_io).expect("below total");
		if let Err(e) = recover_and_use(&image, allowed_io) {
			failures.push(e);
		}
		std::fs::remove_dir_all(&image).unwrap();
	}
	eprintln!("{} crash points of {total}, {} failures", points.len(), failures.len());
	assert!(
		failures.is_empty(),
		"{} of {} crash points leave a database that fails later:\n{}",
		failures.len(),
		points.len(),
		failures.join("\n")
	);
}

// The same with the ordinary background threads: some time after recovery the database stops
// accepting commits.
#[test]
fn crash_while_logging_a_growing_commit_threaded() {
	let dir = tempfile::tempdir().unwrap();
	let total = total_ops(dir.path());
	let image = crash_while_logging(dir.path(), total - 1).expect("below total");
	let mut options = options(&image);
	options.with_background_thread = true;
	let db = Db::open(&options).unwrap();
	let start = std::time::Instant::now();
	let mut n = 0u32;
	while start.elapsed() < std::time::Duration::from_secs(6) {
		n += 1;
		// Also wakes the log worker up, as any application traffic would.
		if let Err(e) = db.commit(vec![(0u8, old_key(1000 + n), Some(vec![1u8; 8]))]) {
			panic!("commit {n}, {:?} after recovery, is refused: {e:?}", start.elapsed());
		}
		std::thread::sleep(std::time::Duration::from_millis(20));
	}
	for i in 0..20u32 {
		assert_eq!(db.get(0, &old_key(i)).unwrap(), Some(vec![i as u8; 16]));
	}
}

// Simplest form: a new database whose very first commit (a bulk import that overflows one index
// page: 70 keys in one chunk, single growth 16 -> 17) is cut short by a crash. The commit is lost,
// as it should be; but the recovered, empty database then fails while "finishing" the growth.
#[test]
fn crash_while_logging_the_first_commit_of_a_new_database() {
	let dir = tempfile::tempdir().unwrap();
	// Find the last crash point.
	let (mut lo, mut hi) = (0usize, 1usize << 14);
	while hi - lo > 1 {
		let mid = (lo + hi) / 2;
		match crash_while_logging_with(dir.path(), mid, false, 70) {
			Some(image) => {
				std::fs::remove_dir_all(&image).unwrap();
				lo = mid;
			},
			None => hi = mid,
		}
	}
	let image = crash_while_logging_with(dir.path(), lo, false, 70).unwrap();
	let db = Db::open(&options(&image)).unwrap();
	for round in 0..4 {
		// The application carries on (e.g. repeats its import bit by bit).
		db.commit(vec![(0u8, old_key(round), Some(vec![7u8; 8]))]).unwrap();
		db.process_commits().unwrap();
		db.process_reindex().unwrap();
		db.flush_logs().unwrap();
		if let Err(e) = db.enact_logs() {
			panic!("round {round}: enact_logs failed on the recovered database: {e:?}");
		}
		db.clean_logs().unwrap();
	}
}
