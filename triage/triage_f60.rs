//! C20, finding 1: a database with 256 columns (the maximum `Options::is_valid` allows, column
//! ids are `u8`) is "migrated" to an empty destination and `migrate` returns `Ok(())`.
//!
//! Run: cargo test --offline --test hunt_H3C20_1 -- --test-threads=1

use parity_db::{CompressionType, Db, Options};
use std::path::Path;

fn key(c: usize, i: u8) -> Vec<u8> {
	vec![c as u8, i, 1, 2, 3, 4, 5, 6]
}
fn value(c: usize, i: u8) -> Vec<u8> {
	vec![i ^ c as u8; 10 + c % 7]
}

fn options(path: &Path, columns: usize) -> Options {
	let mut o = Options::with_columns(path, 0);
	o.columns = vec![Default::default(); columns];
	o
}

fn fill(o: &Options) {
	let db = Db::open_or_create(o).unwrap();
	db.commit((0..o.columns.len()).flat_map(|c| (0..3u8).map(move |i| (c as u8, key(c, i), Some(value(c, i))))))
		.unwrap();
}

// Number of (column, key) pairs that do not return the value they were written with.
fn missing(o: &Options) -> usize {
	let db = Db::open(o).unwrap();
	let mut missing = 0;
	for c in 0..o.columns.len() {
		for i in 0..3u8 {
			if db.get(c as u8, &key(c, i)).unwrap() != Some(value(c, i)) {
				missing += 1;
			}
		}
	}
	missing
}

fn run(columns: usize, overwrite: bool) -> usize {
	let dir = tempfile::tempdir().unwrap();
	let source = options(&dir.path().join("source"), columns);
	fill(&source);
	assert_eq!(missing(&source), 0, "the source itself works with {columns} columns");

	// Column 3 changes its compression (selected automatically), column 5 is forced, every other
	// column is to be copied unchanged.
	let mut to = options(&dir.path().join("dest"), columns);
	to.columns[3].compression = CompressionType::Lz4;
	parity_db::migrate(&source.path, to.clone(), overwrite, &[5]).unwrap();

	if overwrite {
		// The source now has the new configuration.
		let meta = Options::load_metadata(&source.path).unwrap().unwrap();
		assert_eq!(
			meta.columns[3].compression,
			CompressionType::Lz4,
			"migrate returned Ok(()) but column 3 of the source was not migrated"
		);
		let mut migrated = source.clone();
		migrated.columns = to.columns.clone();
		missing(&migrated)
	} else {
		assert_eq!(missing(&source), 0, "source unchanged");
		missing(&to)
	}
}

#[test]
fn all_256_columns_reach_the_destination() {
	assert_eq!(run(256, false), 0, "(column, key) pairs of the source that the destination does not return");
}

#[test]
fn all_256_columns_overwrite() {
	assert_eq!(run(256, true), 0);
}

#[test]
fn control_fewer_columns() {
	// One column less: in-place (cheap, the unselected columns are not touched) ...
	assert_eq!(run(255, true), 0);
	// ... and a copy with column ids on both sides of 127 (every copied column reopens the
	// destination, 255 of them take minutes in a debug build).
	assert_eq!(run(130, false), 0);
}
