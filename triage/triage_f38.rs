// HC15 finding 1: `Db::drop` hangs forever when shutdown is requested while the log worker
// is between the "is shutdown requested?" check and `Condvar::wait` of the log-queue throttle
// in `DbInner::process_commits`.
//
//   process_commits:                                   shutdown:
//     let mut queue = self.log_queue_wait.work.lock();
//     if !self.shutdown.load(..) && *queue > MAX {       self.shutdown.store(true, ..);
//         log::debug!("Waiting, log_bytes={}", queue);   self.log_queue_wait.cv.notify_one(); // no lock
//         self.log_queue_wait.cv.wait(&mut queue);
//     }
//
// `shutdown` neither holds `log_queue_wait.work` while it notifies nor sets a flag that is
// looked at under that mutex, so the notification is lost when it falls into the window.
// Nobody else wakes the log worker: after shutdown the commit worker only finishes the log
// file it is reading and exits, so the "crossed below 128 MiB" notification of `enact_logs`
// does not come either. `drop_inner` then joins the log worker forever.
//
// The window contains a `log::debug!` call, so the process-wide logger runs inside it. The test
// installs a logger that is merely slow at that message (it returns about one second after the
// drop has started). That makes the interleaving deterministic without touching the library.
// Everything else is the public API: a client iterating a column keeps the commit worker busy
// (`iteration_lock`), another one commits 8 x 16 MiB, the handle is dropped.
//
// Run:
//   cargo test --offline --features instrumentation --test hunt_HC15_1 -- --test-threads=1
//
// `control_*` passes (same history, the logger is not slow: the log worker is already parked
// when shutdown notifies). `shutdown_requested_while_log_worker_enters_throttle_wait` fails on
// the unmodified code with "Db::drop did not return".

#![cfg(feature = "instrumentation")]

use parity_db::{Db, Options};
use std::{
	sync::{
		atomic::{AtomicBool, AtomicUsize, Ordering::SeqCst},
		Arc, Mutex,
	},
	thread,
	time::{Duration, Instant},
};

const MIB: usize = 1024 * 1024;

// The logger holds the log worker in the window when this is set.
static SLOW_LOGGER: AtomicBool = AtomicBool::new(false);
// The log worker has decided to wait for the log queue to drain.
static AT_WAIT: AtomicBool = AtomicBool::new(false);
// `drop(db)` is about to be called.
static DROP_STARTED: AtomicBool = AtomicBool::new(false);
// Number of log files handed to the commit worker.
static FLUSHED: AtomicUsize = AtomicUsize::new(0);
// The two tests share the logger.
static SERIAL: Mutex<()> = Mutex::new(());

struct Logger;

impl log::Log for Logger {
	fn enabled(&self, metadata: &log::Metadata) -> bool {
		metadata.target() == "parity-db" && metadata.level() <= log::Level::Debug
	}

	fn log(&self, record: &log::Record) {
		if !self.enabled(record.metadata()) {
			return
		}
		let message = record.args().to_string();
		if message.starts_with("Flush: Flushing log completed") {
			FLUSHED.fetch_add(1, SeqCst);
		}
		if message.starts_with("Waiting, log_bytes=") {
			AT_WAIT.store(true, SeqCst);
			if SLOW_LOGGER.load(SeqCst) {
				// A slow sink: the call returns one second after the drop has begun.
				let start = Instant::now();
				while !DROP_STARTED.load(SeqCst) && start.elapsed() < Duration::from_secs(120) {
					thread::sleep(Duration::from_millis(5));
				}
				thread::sleep(Duration::from_secs(1));
			}
		}
	}

	fn flush(&self) {}
}

static LOGGER: Logger = Logger;

fn wait_for(what: &str, timeout: Duration, condition: impl Fn() -> bool) {
	let start = Instant::now();
	while !condition() {
		assert!(start.elapsed() < timeout, "timed out waiting for: {what}");
		thread::sleep(Duration::from_millis(5));
	}
}

fn big_key(i: usize) -> Vec<u8> {
	format!("big value {i}").into_bytes()
}

/// Returns whether `drop(db)` returned within the watchdog time.
fn scenario(slow_logger: bool) -> bool {
	let _serial = SERIAL.lock().unwrap_or_else(|e| e.into_inner());
	let _ = log::set_logger(&LOGGER);
	log::set_max_level(log::LevelFilter::Debug);
	SLOW_LOGGER.store(false, SeqCst);
	AT_WAIT.store(false, SeqCst);
	DROP_STARTED.store(false, SeqCst);

	let dir = tempfile::tempdir().unwrap();
	let mut options = Options::with_columns(dir.path(), 1);
	// Every record gets its own log file; everything else is the default configuration
	// (background workers, sync_wal, sync_data).
	options.always_flush = true;
	assert!(options.with_background_thread);

	// One value in the table so that the iteration below has something to visit.
	{
		let db = Db::open_or_create(&options).unwrap();
		db.commit(vec![(0u8, b"seed".to_vec(), Some(vec![1u8; 64]))]).unwrap();
	}

	let db = Arc::new(Db::open(&options).unwrap());

	// Client 1 iterates the column and is slow about it. Iteration excludes log enactment, so
	// the commit worker falls behind for that long.
	let in_iteration = Arc::new(AtomicBool::new(false));
	let finish_iteration = Arc::new(AtomicBool::new(false));
	let iteration = {
		let (db, in_iteration, finish_iteration) =
			(db.clone(), in_iteration.clone(), finish_iteration.clone());
		thread::spawn(move || {
			db.iter_column_while(0, |_| {
				in_iteration.store(true, SeqCst);
				while !finish_iteration.load(SeqCst) {
					thread::sleep(Duration::from_millis(5));
				}
				false
			})
			.unwrap();
		})
	};
	wait_for("iteration to start", Duration::from_secs(60), || in_iteration.load(SeqCst));

	// Client 2: a small commit first. It ends up alone in the first log file.
	let flushed = FLUSHED.load(SeqCst);
	db.commit(vec![(0u8, b"tiny".to_vec(), Some(vec![2u8; 64]))]).unwrap();
	wait_for("first log file to be rotated", Duration::from_secs(60), || {
		FLUSHED.load(SeqCst) > flushed
	});
	thread::sleep(Duration::from_millis(200));

	// Then 8 x 16 MiB. The log worker writes them all to the log (more than 128 MiB are now
	// logged and not applied) and throttles itself on its next round.
	SLOW_LOGGER.store(slow_logger, SeqCst);
	for i in 0..8 {
		db.commit(vec![(0u8, big_key(i), Some(vec![i as u8; 16 * MIB]))]).unwrap();
	}
	wait_for("log worker to throttle", Duration::from_secs(300), || AT_WAIT.load(SeqCst));
	// Without the slow logger the log worker is parked on the condition variable after this.
	thread::sleep(Duration::from_millis(500));

	// Client 1 is done.
	finish_iteration.store(true, SeqCst);
	iteration.join().unwrap();
	thread::sleep(Duration::from_millis(300));

	// The last handle goes away.
	let db = Arc::try_unwrap(db).ok().expect("no other handle");
	let dropped = Arc::new(AtomicBool::new(false));
	{
		let dropped = dropped.clone();
		thread::spawn(move || {
			DROP_STARTED.store(true, SeqCst);
			drop(db);
			dropped.store(true, SeqCst);
		});
	}
	let start = Instant::now();
	while !dropped.load(SeqCst) && start.elapsed() < Duration::from_secs(90) {
		thread::sleep(Duration::from_millis(20));
	}
	SLOW_LOGGER.store(false, SeqCst);
	if !dropped.load(SeqCst) {
		// The workers are stuck, leave them and the directory alone.
		std::mem::forget(dir);
		return false
	}

	// All accepted commits are there after reopening.
	let db = Db::open(&options).unwrap();
	assert_eq!(db.get(0, b"seed").unwrap(), Some(vec![1u8; 64]));
	assert_eq!(db.get(0, b"tiny").unwrap(), Some(vec![2u8; 64]));
	for i in 0..8 {
		let value = db.get(0, &big_key(i)).unwrap().expect("big value persisted");
		assert_eq!(value.len(), 16 * MIB);
		assert!(value.iter().all(|b| *b == i as u8));
	}
	true
}

#[test]
fn control_shutdown_after_log_worker_is_parked() {
	assert!(scenario(false), "Db::drop did not return (control)");
}

#[test]
fn shutdown_requested_while_log_worker_enters_throttle_wait() {
	assert!(
		scenario(true),
		"Db::drop did not return within 90 s: the log worker missed the shutdown notification \
		 and waits for the log queue to drain forever"
	);
}
