#![cfg(feature = "instrumentation")]
// H5C19 finding 1 (adjacent to C19, see NOTES.md): `Db::get` of a key that nobody touches panics.
//
// The enact stage copies an index entry from the log's BufReader straight into the mapped index
// page (`IndexTable::enact_plan`, `log.read(&mut chunk[i * 8..(i + 1) * 8])`). When the 8 bytes
// straddle the reader's 8 KiB buffer the copy is done in two pieces with a file read in between.
// A lookup that found nothing for the page in the log overlay and reads the mapped page at that
// moment is handed a slot that holds half of the old entry (the compared pattern) and half of the
// new one (here: address 0, i.e. size tier 0, offset 0). The caller's confirmation against the
// value table then goes to a table that has no file and panics (src/file.rs, `slice_at`).
//
// The schedule has no I/O or log statement inside the reader's window, it is imposed with gdb:
//   cargo test --offline --features instrumentation --test hunt_H5C19_1 --no-run
//   gdb -batch -x tests/hunt_H5C19_1.gdb --args target/debug/deps/hunt_H5C19_1-<hash> \
//       --test-threads=1 --nocapture
// Without gdb (`cargo test --offline --features instrumentation --test hunt_H5C19_1`) the test passes.
use parity_db::{ColumnOptions, Db, Options};
use std::path::Path;
use std::sync::Arc;

#[no_mangle]
pub static mut HUNT_GO: [u32; 4] = [0; 4];

#[no_mangle]
#[inline(never)]
pub extern "C" fn hunt_reader_start() {
	unsafe { std::ptr::write_volatile(std::ptr::addr_of_mut!(HUNT_GO[2]), 1) };
}

#[no_mangle]
#[inline(never)]
pub extern "C" fn hunt_reader_done() {
	unsafe { std::ptr::write_volatile(std::ptr::addr_of_mut!(HUNT_GO[3]), 1) };
}

fn wait_go(i: usize) {
	while unsafe { std::ptr::read_volatile(std::ptr::addr_of!(HUNT_GO[i])) } == 0 {
		std::thread::sleep(std::time::Duration::from_millis(1));
	}
}

fn set_go(i: usize) {
	unsafe { std::ptr::write_volatile(std::ptr::addr_of_mut!(HUNT_GO[i]), 1) };
}

fn key(chunk: u16, pattern: u32, tail: u8) -> [u8; 32] {
	let mut k = [0u8; 32];
	k[0..2].copy_from_slice(&chunk.to_be_bytes());
	k[2..6].copy_from_slice(&pattern.to_be_bytes());
	for b in k[6..].iter_mut() {
		*b = tail;
	}
	k[6] &= 0x3f;
	k
}

#[test]
fn reader_of_untouched_key_during_enact() {
	let root = Path::new(env!("CARGO_MANIFEST_DIR")).join("tmp");
	std::fs::create_dir_all(&root).unwrap();
	let tmp = tempfile::tempdir_in(&root).unwrap();
	let path = tmp.path().join("db");
	let mut options = Options::with_columns(&path, 1);
	options.columns[0] = ColumnOptions { uniform: true, ..Default::default() };
	options.salt = Some([0; 32]);
	options.with_background_thread = false;
	let db = Arc::new(Db::open_or_create(&options).unwrap());

	// J and K share the page (chunk 0) and the 32 compared bits; J takes slot 0, K slot 1.
	let j = key(0, 0x1122_3344, 0xaa);
	let k = key(0, 0x1122_3344, 0xbb);
	let value_k = vec![0x4b; 10];
	// Other pages: values that are replaced in place later, to fill the log file.
	let lens: Vec<usize> = vec![776, 776, 776, 776, 776, 776, 776, 776, 776, 772];
	let fillers: Vec<[u8; 32]> = (0..lens.len()).map(|i| key(0x100 + i as u16, 7, i as u8 + 1)).collect();

	let mut tx = vec![(0u8, j.to_vec(), Some(vec![0x4a; 10])), (0u8, k.to_vec(), Some(value_k.clone()))];
	for (f, l) in fillers.iter().zip(lens.iter()) {
		tx.push((0u8, f.to_vec(), Some(vec![1u8; *l])));
	}
	db.commit(tx).unwrap();
	db.process_commits().unwrap();
	db.flush_logs().unwrap();
	db.enact_logs().unwrap();
	db.clean_logs().unwrap();
	assert_eq!(db.get(0, &k).unwrap(), Some(value_k.clone()));

	// Record 1: values only.
	db.commit(fillers.iter().zip(lens.iter()).map(|(f, l)| (0u8, f.to_vec(), Some(vec![2u8; *l])))).unwrap();
	db.process_commits().unwrap();
	let logged: u64 = std::fs::read_dir(&path)
		.unwrap()
		.map(|e| e.unwrap())
		.filter(|e| e.file_name().to_str().unwrap().starts_with("log"))
		.map(|e| e.metadata().unwrap().len())
		.sum();
	eprintln!("record 1 ends at {} (the entry of record 2 is at {}..{})", logged, logged + 28, logged + 36);

	// Record 2: J is removed. Queued only.
	db.commit(vec![(0u8, j.to_vec(), None)]).unwrap();

	let t1 = {
		let db = db.clone();
		std::thread::Builder::new()
			.name("hunt_T1".into())
			.spawn(move || {
				wait_go(0);
				db.process_commits().unwrap();
			})
			.unwrap()
	};
	let t2 = {
		let db = db.clone();
		std::thread::Builder::new()
			.name("hunt_T2".into())
			.spawn(move || {
				wait_go(1);
				db.flush_logs().unwrap();
				db.enact_logs().unwrap();
			})
			.unwrap()
	};
	let r = {
		let db = db.clone();
		std::thread::Builder::new()
			.name("hunt_R".into())
			.spawn(move || {
				// the two stage threads are up (and named) by the time gdb stops everything
				std::thread::sleep(std::time::Duration::from_millis(200));
				hunt_reader_start();
				let res = std::panic::catch_unwind(std::panic::AssertUnwindSafe(|| db.get(0, &k)));
				hunt_reader_done();
				res
			})
			.unwrap()
	};
	let res = r.join().unwrap();
	set_go(0);
	t1.join().unwrap();
	set_go(1);
	t2.join().unwrap();

	match res {
		Ok(Ok(Some(v))) => assert_eq!(v, value_k),
		Ok(other) => panic!("get of the untouched key returned {:?}", other.map(|o| o.map(|v| v.len()))),
		Err(_) => panic!("get of the untouched key panicked"),
	}
	assert_eq!(db.get(0, &j).unwrap(), None);
	assert_eq!(db.get(0, &k).unwrap(), Some(value_k));
}
