// C16 hunt, finding 2.
//
// With background threads: when the cleanup worker dies from an I/O error (truncating an enacted
// log file fails) while more than MAX_LOG_FILES (4) enacted logs wait for cleanup, the commit
// worker stays parked in `enact_logs` on `cleanup_queue_wait` forever. Nobody signals that
// condition any more (`clean_logs` returns early on the error, `shutdown()` does not signal it and
// the wait loop does not look at the shutdown flag), so `Db::drop` never returns from joining the
// commit thread: the writer is not stopped cleanly, the lock is never released and the database
// can not be reopened without killing the process.
//
// The I/O error is injected for the worker thread by interposing `ftruncate64` in this test binary
// (`File::set_len` of the standard library resolves to the definition below). Only truncation to
// length zero, i.e. the log truncation in `Log::clean_logs`, fails, with EIO, from the first time
// on and for as long as the database is open. The call takes a while before failing (a slow,
// failing device); this makes the schedule deterministic.
//
// Run with:
//   cargo test --offline --features instrumentation --test hunt_HC16_2 -- --nocapture
#![cfg(all(feature = "instrumentation", target_os = "linux"))]

use parity_db::{ColumnOptions, Db, Error, Options};
use std::{
	path::Path,
	sync::atomic::{AtomicBool, AtomicUsize, Ordering},
	time::{Duration, Instant},
};

static ARMED: AtomicBool = AtomicBool::new(false);
static REACHED: AtomicBool = AtomicBool::new(false);
static RELEASE: AtomicBool = AtomicBool::new(false);
static FAILED_CALLS: AtomicUsize = AtomicUsize::new(0);

unsafe fn hooked_ftruncate(fd: libc::c_int, len: i64) -> libc::c_int {
	if len == 0 && ARMED.load(Ordering::SeqCst) {
		REACHED.store(true, Ordering::SeqCst);
		while !RELEASE.load(Ordering::SeqCst) {
			std::thread::sleep(Duration::from_millis(1));
		}
		FAILED_CALLS.fetch_add(1, Ordering::SeqCst);
		*libc::__errno_location() = libc::EIO;
		return -1
	}
	libc::syscall(libc::SYS_ftruncate, fd, len) as libc::c_int
}

#[no_mangle]
pub unsafe extern "C" fn ftruncate64(fd: libc::c_int, len: i64) -> libc::c_int {
	hooked_ftruncate(fd, len)
}

#[no_mangle]
pub unsafe extern "C" fn ftruncate(fd: libc::c_int, len: i64) -> libc::c_int {
	hooked_ftruncate(fd, len)
}

fn options(path: &Path) -> Options {
	let mut o = Options::with_columns(path, 1);
	o.columns[0] = ColumnOptions::default();
	o.sync_wal = true;
	o.sync_data = true;
	o.stats = false;
	o.with_background_thread = true;
	// Flush (and fsync) the log after every record instead of after 64 MiB.
	o.always_flush = true;
	o
}

fn key(i: u32) -> Vec<u8> {
	format!("key-{i}").into_bytes()
}

fn value(i: u32) -> Vec<u8> {
	format!("value-{i}").into_bytes()
}

fn wait_for(what: &str, cond: impl Fn() -> bool) {
	let start = Instant::now();
	while !cond() {
		assert!(start.elapsed() < Duration::from_secs(20), "timed out waiting for {what}");
		std::thread::sleep(Duration::from_millis(5));
	}
}

#[test]
fn drop_hangs_after_cleanup_worker_io_error() {
	let _ = env_logger::try_init();
	let tmp = tempfile::tempdir().unwrap();
	let db = Db::open_or_create(&options(tmp.path())).unwrap();

	// From now on truncating a log file fails.
	ARMED.store(true, Ordering::SeqCst);

	// First transaction goes all the way through the pipeline; the cleanup worker then tries to
	// truncate its log file and sits in the (slow, eventually failing) ftruncate call.
	db.commit(vec![(0u8, key(0), Some(value(0)))]).unwrap();
	wait_for("the cleanup worker to reach ftruncate", || REACHED.load(Ordering::SeqCst));

	// More transactions. Each gets its own log file (always_flush), the commit worker enacts them
	// and queues the files for cleanup. With more than 4 files queued it parks itself and waits
	// for the cleanup worker.
	const N: u32 = 12;
	for i in 1..=N {
		db.commit(vec![(0u8, key(i), Some(value(i)))]).unwrap();
		std::thread::sleep(Duration::from_millis(50));
	}
	std::thread::sleep(Duration::from_millis(500));

	// Now the truncation fails with EIO. The cleanup worker records the background error.
	RELEASE.store(true, Ordering::SeqCst);
	wait_for("the background error to be reported to commit", || {
		match db.commit(vec![(0u8, b"probe".to_vec(), Some(b"probe".to_vec()))]) {
			Err(Error::Background(_)) => true,
			Ok(()) => false,
			Err(e) => panic!("unexpected error {e:?}"),
		}
	});
	assert!(FAILED_CALLS.load(Ordering::SeqCst) >= 1);

	// Reads keep returning committed data.
	for i in 0..=N {
		assert_eq!(db.get(0, &key(i)).unwrap(), Some(value(i)));
	}

	// Close the database. The fault is still present.
	let (tx, rx) = std::sync::mpsc::channel();
	std::thread::spawn(move || {
		drop(db);
		let _ = tx.send(());
	});
	if rx.recv_timeout(Duration::from_secs(20)).is_err() {
		panic!(
			"Db::drop did not return within 20 s after a cleanup worker I/O error: \
			 the commit worker is parked on cleanup_queue_wait and is never woken up"
		);
	}

	// The fault is gone: reopening must give a prefix of the committed transactions.
	ARMED.store(false, Ordering::SeqCst);
	let db = Db::open(&options(tmp.path())).unwrap();
	let mut missing = false;
	for i in 0..=N {
		match db.get(0, &key(i)).unwrap() {
			Some(v) => {
				assert_eq!(v, value(i));
				assert!(!missing, "transaction {i} present after a missing one: not a prefix");
			},
			None => missing = true,
		}
	}
}
