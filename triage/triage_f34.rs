// HC13 finding 2: a log file whose first record id reads as 0 makes `Db::open` panic with
// "attempt to subtract with overflow" (DbInner::open: `log.replay_record_id().unwrap_or(2) - 1`).
// Record ids restart at 1 on every open, so the first log file of every session starts with
// id 1 and a single flipped bit (bit 0 of byte 1) produces id 0; a log file whose blocks were
// zero-filled by the file system after a power loss produces it as well.
//
// Run: cargo test --offline --features instrumentation --test hunt_HC13_2

#![cfg(feature = "instrumentation")]

use parity_db::{ColumnOptions, Db, Options};
use std::path::{Path, PathBuf};

fn options(path: &Path) -> Options {
	let mut o = Options::with_columns(path, 1);
	o.columns[0] = ColumnOptions { uniform: true, ..Default::default() };
	o.salt = Some([0; 32]);
	o.with_background_thread = false;
	o
}

fn copy_db(from: &Path, to: &Path) {
	std::fs::create_dir_all(to).unwrap();
	for e in std::fs::read_dir(from).unwrap() {
		let e = e.unwrap();
		if e.file_name() == "lock" {
			continue
		}
		std::fs::copy(e.path(), to.join(e.file_name())).unwrap();
	}
}

fn key(b: u8) -> Vec<u8> {
	vec![b; 32]
}

fn build(tmp: &Path) -> (PathBuf, PathBuf) {
	let live = tmp.join("live");
	let crash = tmp.join("crash");
	let db = Db::open_or_create(&options(&live)).unwrap();
	db.commit(vec![(0u8, key(1), Some(b"value-A".to_vec()))]).unwrap();
	db.process_commits().unwrap();
	db.flush_logs().unwrap();
	copy_db(&live, &crash);
	drop(db);
	let log = crash.join("log0");
	let bytes = std::fs::read(&log).unwrap();
	assert_eq!(bytes[0], 1);
	assert_eq!(u64::from_le_bytes(bytes[1..9].try_into().unwrap()), 1);
	(crash, log)
}

fn check(crash: &Path) {
	let db = Db::open(&options(crash)).unwrap();
	// The only record is damaged: nothing may be applied.
	assert_eq!(db.get(0, &key(1)).unwrap(), None);
	db.commit(vec![(0u8, key(3), Some(b"value-C".to_vec()))]).unwrap();
	db.process_commits().unwrap();
	db.flush_logs().unwrap();
	db.enact_logs().unwrap();
	assert_eq!(db.get(0, &key(3)).unwrap(), Some(b"value-C".to_vec()));
}

#[test]
fn record_id_bit_flip_to_zero_must_not_panic() {
	let tmp = tempfile::tempdir().unwrap();
	let (crash, log) = build(tmp.path());
	let mut bytes = std::fs::read(&log).unwrap();
	bytes[1] ^= 1; // record id 1 -> 0
	std::fs::write(&log, bytes).unwrap();
	check(&crash);
}

#[test]
fn zero_filled_log_must_not_panic() {
	let tmp = tempfile::tempdir().unwrap();
	let (crash, log) = build(tmp.path());
	let len = std::fs::metadata(&log).unwrap().len() as usize;
	std::fs::write(&log, vec![0u8; len]).unwrap();
	check(&crash);
}
