// H2C17 finding 1: the administration calls write `options.salt` (the caller's override) into
// the metadata file instead of the salt the database was created with. `Db::open` itself accepts
// such options (the salt is not part of the option check, the columns are opened with the stored
// salt and reads work), but after `add_column` / `drop_last_column` / `reset_column(.., Some(_))`
// the stored salt is a different one and every key of every *other* hash column hashes elsewhere:
// their content is out of reach.
//
// Run: cargo test --offline --test hunt_H2C17_1
//
// A correct implementation either refuses the call without touching anything or keeps the stored
// salt; both are accepted below.

use parity_db::{ColumnOptions, Db, Options};
use std::path::Path;

const STORED_SALT: [u8; 32] = [7u8; 32];
const OTHER_SALT: [u8; 32] = [9u8; 32];
const N: u32 = 200;

fn key(i: u32) -> Vec<u8> {
	format!("key-number-{i:06}").into_bytes()
}

fn value(c: u8, i: u32) -> Vec<u8> {
	format!("value-{c}-{i}").into_bytes()
}

fn options(path: &Path, columns: usize, salt: Option<[u8; 32]>) -> Options {
	let mut o = Options::with_columns(path, columns as u8);
	o.salt = salt;
	o
}

/// Three plain hash columns, `N` keys each, cleanly closed. Created with `STORED_SALT`.
fn create(path: &Path) {
	let o = options(path, 3, Some(STORED_SALT));
	let db = Db::open_or_create(&o).unwrap();
	for c in 0..3u8 {
		db.commit((0..N).map(|i| (c, key(i), Some(value(c, i))))).unwrap();
	}
	drop(db);
	assert_eq!(Options::load_metadata(path).unwrap().unwrap().salt, STORED_SALT);
}

/// All of column `c` is readable through the public API.
fn check_column(path: &Path, columns: usize, c: u8, salt: Option<[u8; 32]>, what: &str) {
	let db = Db::open(&options(path, columns, salt)).unwrap();
	for i in 0..N {
		assert_eq!(
			db.get(c, &key(i)).unwrap(),
			Some(value(c, i)),
			"column {c} key {i}: {what}"
		);
	}
}

/// The caller's view before the call: opening with the override is accepted and reads work.
/// (An implementation that refuses such options at open is fine as well: then the administration
/// call has to refuse them too, which the checks after the call accept.)
fn precondition(path: &Path) {
	match Db::open(&options(path, 3, Some(OTHER_SALT))) {
		Ok(db) =>
			for c in 0..3u8 {
				for i in 0..N {
					assert_eq!(db.get(c, &key(i)).unwrap(), Some(value(c, i)), "before the call");
				}
			},
		Err(_) => (),
	}
}

fn stored_salt(path: &Path) -> [u8; 32] {
	Options::load_metadata(path).unwrap().unwrap().salt
}

#[test]
fn add_column_keeps_other_columns() {
	let dir = tempfile::tempdir().unwrap();
	let path = dir.path().join("db");
	create(&path);
	precondition(&path);

	let mut o = options(&path, 3, Some(OTHER_SALT));
	let r = Db::add_column(&mut o, ColumnOptions::default());
	let columns = if r.is_ok() { 4 } else { 3 };
	assert_eq!(Options::load_metadata(&path).unwrap().unwrap().columns.len(), columns);

	for c in 0..3 {
		// Neither the stored salt, nor no override at all, nor the caller's own options find
		// the data again once the metadata carries the other salt.
		check_column(&path, columns, c, None, "lost after add_column");
	}
	assert_eq!(stored_salt(&path), STORED_SALT, "add_column changed the salt of the database");
}

#[test]
fn drop_last_column_keeps_other_columns() {
	let dir = tempfile::tempdir().unwrap();
	let path = dir.path().join("db");
	create(&path);
	precondition(&path);

	let mut o = options(&path, 3, Some(OTHER_SALT));
	let r = Db::drop_last_column(&mut o);
	let columns = if r.is_ok() { 2 } else { 3 };
	assert_eq!(Options::load_metadata(&path).unwrap().unwrap().columns.len(), columns);

	for c in 0..2 {
		check_column(&path, columns, c, None, "lost after drop_last_column");
	}
	assert_eq!(stored_salt(&path), STORED_SALT, "drop_last_column changed the salt of the database");
}

#[test]
fn reset_column_keeps_other_columns() {
	let dir = tempfile::tempdir().unwrap();
	let path = dir.path().join("db");
	create(&path);
	precondition(&path);

	let mut o = options(&path, 3, Some(OTHER_SALT));
	let new = ColumnOptions { btree_index: true, ..Default::default() };
	let r = Db::reset_column(&mut o, 1, Some(new.clone()));
	let mut after = options(&path, 3, None);
	if r.is_ok() {
		after.columns[1] = new;
	}

	let db = Db::open(&after).unwrap();
	for c in [0u8, 2] {
		for i in 0..N {
			assert_eq!(
				db.get(c, &key(i)).unwrap(),
				Some(value(c, i)),
				"column {c} key {i}: lost after reset_column of column 1"
			);
		}
	}
	drop(db);
	assert_eq!(stored_salt(&path), STORED_SALT, "reset_column changed the salt of the database");
}
