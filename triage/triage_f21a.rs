//! C11 finding 2: a reader that takes the tree lock right after the dereference walk has
//! released its write lock, but before the log record of the removal is published, reads the
//! intact root and then loses root and nodes WHILE STILL HOLDING THE READ LOCK.
//!
//! The schedule is made deterministic without touching src/: the test installs a `log::Log`
//! implementation and parks the log-worker thread inside one of its own `log::debug!` calls
//! (the first message it emits after "Dereferenced tree ...", i.e. after the write guard of the
//! tree has been dropped and before `Log::end_record` publishes the record).
//!
//! Run: cargo test --offline --features instrumentation --test hunt_HC11_2
#![cfg(feature = "instrumentation")]

use parity_db::{ColumnOptions, Db, NewNode, NodeRef, Operation, Options};
use std::{
	sync::{
		atomic::{AtomicU8, Ordering},
		mpsc::{channel, Receiver, Sender},
		Arc, Mutex,
	},
	thread::ThreadId,
	time::Duration,
};

const TREES: u8 = 0;

struct Window {
	worker: ThreadId,
	opened: Sender<()>,
	resume: Receiver<()>,
}

// 0: idle, 1: waiting for "Dereferenced tree", 2: park at next message, 3: done
static STATE: AtomicU8 = AtomicU8::new(0);
static WINDOW: Mutex<Option<Window>> = Mutex::new(None);

struct Scheduler;
impl log::Log for Scheduler {
	fn enabled(&self, _: &log::Metadata) -> bool {
		true
	}
	fn log(&self, record: &log::Record) {
		let state = STATE.load(Ordering::SeqCst);
		if state != 1 && state != 2 {
			return
		}
		let window = WINDOW.lock().unwrap();
		let Some(w) = window.as_ref() else { return };
		if std::thread::current().id() != w.worker {
			return
		}
		let msg = record.args().to_string();
		if state == 1 {
			if msg.starts_with("Dereferenced tree") {
				// Emitted while the write guard of the tree is still alive.
				STATE.store(2, Ordering::SeqCst);
			}
			return
		}
		// First message of the worker after the walk: the write guard is gone, the record is
		// not published yet.
		STATE.store(3, Ordering::SeqCst);
		eprintln!("worker parked at: {msg:?}");
		w.opened.send(()).unwrap();
		// A correct implementation would keep the reader out until the removal is visible, in
		// which case nobody answers: go on after a while.
		let _ = w.resume.recv_timeout(Duration::from_secs(3));
	}
	fn flush(&self) {}
}
static SCHEDULER: Scheduler = Scheduler;

fn options(path: &std::path::Path) -> Options {
	let mut options = Options::with_columns(path, 1);
	options.salt = Some([0u8; 32]);
	options.with_background_thread = false;
	options.always_flush = true;
	options.columns[TREES as usize] =
		ColumnOptions { multitree: true, allow_direct_node_access: true, ..Default::default() };
	options
}

type Snapshot = (Option<(Vec<u8>, Vec<u64>)>, Vec<Option<(Vec<u8>, Vec<u64>)>>);

#[test]
fn locked_reader_keeps_its_tree_until_it_unlocks() {
	log::set_logger(&SCHEDULER).unwrap();
	log::set_max_level(log::LevelFilter::Trace);

	let dir = tempfile::tempdir().unwrap();
	let db = Arc::new(Db::open_or_create(&options(dir.path())).unwrap());
	let key_a = vec![0xA1u8; 32];
	let tree = NewNode {
		data: vec![1u8; 16],
		children: vec![
			NodeRef::New(NewNode { data: vec![1, 1], children: vec![] }),
			NodeRef::New(NewNode { data: vec![1, 2], children: vec![] }),
		],
	};
	db.commit_changes(vec![(TREES, Operation::InsertTree(key_a.clone(), tree))]).unwrap();
	db.process_commits().unwrap();
	db.flush_logs().unwrap();
	db.enact_logs().unwrap();
	db.clean_logs().unwrap();

	let (opened_tx, opened_rx) = channel();
	let (resume_tx, resume_rx) = channel();
	let (finished_tx, finished_rx) = channel::<()>();
	*WINDOW.lock().unwrap() =
		Some(Window { worker: std::thread::current().id(), opened: opened_tx, resume: resume_rx });

	// Reader thread: an ordinary client of `get_tree`.
	let reader_db = db.clone();
	let reader_key = key_a.clone();
	let reader = std::thread::spawn(move || -> Option<(Snapshot, Snapshot)> {
		let tree = reader_db.get_tree(TREES, &reader_key).unwrap().expect("tree A exists");
		opened_rx.recv().unwrap();
		let guard = tree.read();
		let snapshot = |guard: &dyn parity_db::TreeReader| -> Snapshot {
			let root = guard.get_root().unwrap_or(None);
			let nodes = match &root {
				Some((_, children)) =>
					children.iter().map(|c| guard.get_node(*c).unwrap_or(None)).collect(),
				None => Vec::new(),
			};
			(root, nodes)
		};
		let before = snapshot(&**guard);
		if before.0.is_none() {
			// The removal was already visible when the lock was granted: nothing to protect.
			let _ = resume_tx.send(());
			return None
		}
		let children = before.0.as_ref().unwrap().1.clone();
		// Let the log worker go on and wait until its `process_commits` call has returned.
		resume_tx.send(()).unwrap();
		finished_rx.recv().unwrap();
		// Still the same lock.
		let root = guard.get_root().unwrap_or(None);
		let nodes = children.iter().map(|c| guard.get_node(*c).unwrap_or(None)).collect();
		let after = (root, nodes);
		drop(guard);
		Some((before, after))
	});

	// Pruner + log worker (this thread).
	db.commit_changes(vec![(TREES, Operation::DereferenceTree(key_a.clone()))]).unwrap();
	STATE.store(1, Ordering::SeqCst);
	db.process_commits().unwrap();
	assert_eq!(STATE.load(Ordering::SeqCst), 3, "schedule point was not reached");
	finished_tx.send(()).unwrap();

	if let Some((before, after)) = reader.join().unwrap() {
		assert_eq!(
			before, after,
			"root and nodes changed under a held read lock (left: first read, right: second read)"
		);
	}
}
