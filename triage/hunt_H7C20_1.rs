#![cfg(feature = "instrumentation")]
// C20: "columns not selected for migration are copied unchanged".
//
// `migrate` (copy mode) copies the files of a column that is not selected with `copy_column` while
// its own handle on the source is open and the source's background workers run. An index growth
// that the last session left unfinished (a normal, cleanly closed state) is resumed by these
// workers; once 64 MB of log have piled up the records are enacted, which fills the new index
// table and REMOVES the old index file. If that happens between the copy of the new index table
// and the moment the directory walk of `copy_column` would have come to the old one, the
// destination gets the new table as it was before the reindex and no old table: `migrate`
// returns Ok(()) and the copied column has lost (nearly) all its keys.
//
// The window (between two `readdir` calls of one loop) contains nothing a test could slow down, so
// the schedule is imposed with gdb (tests/hunt_h7C20_1.gdb): the thread that runs `migrate` is
// held right after it has copied `index_XX_17` of the chosen column until the source's commit
// worker has removed `index_XX_16`. Without gdb the test passes (the column is copied about two
// seconds after the source was opened, the old tables go about seven seconds later).
//
// What the test sets up: 12 small columns whose index growth 16 -> 17 was started and not carried
// out, each with values in about 250 size tiers (one file per tier: the directory has more than
// 3000 entries, libc reads it in batches of 1024), and one column with 5.5 million keys whose
// growth 20 -> 21 is pending (its reindex records are what brings the log of the source over the
// 64 MB at which it is flushed and enacted). The test looks at the directory the way
// `std::fs::read_dir` does and picks a small column whose new index table comes in an earlier
// batch of entries than its old one (the order is the file system's: hashed on ext4/xfs/btrfs;
// if no column fits - e.g. a file system that lists in creation order - it says so and passes).
// That column and the big one are copied, the other small ones are migrated by `force_migrate`.
// Needs about 3 GB in the temp dir, 5000 open files (the limit is raised) and 1.5 - 2 minutes.
//
// Run (from the crate root):
//   cargo test --release --offline --features instrumentation --test hunt_h7C20_1 --no-run
//   gdb -batch -x tests/hunt_h7C20_1.gdb --args \
//     $(ls -t target/release/deps/hunt_h7C20_1-* | grep -v '\.d$' | head -1) --test-threads=1 --nocapture
// Control (passes):
//   cargo test --release --offline --features instrumentation --test hunt_h7C20_1 -- --nocapture

use parity_db::{ColumnOptions, Db, Options};
use rand::{rngs::SmallRng, RngCore, SeedableRng};
use std::{
	collections::HashMap,
	ffi::{CStr, CString},
	os::unix::ffi::OsStrExt,
	path::Path,
};

/// Small columns with an unfinished index growth 16 -> 17 (candidates for the race).
const CANDIDATES: usize = 12;
/// Keys of the big column whose unfinished growth 20 -> 21 produces the 64 MB of log.
const BIG_KEYS: usize = 5_500_000;

// The gdb script stops here to learn which column was chosen and where the source is.
#[no_mangle]
#[inline(never)]
pub extern "C" fn hunt_target(col: u32, source_dir: *const libc::c_char) -> u32 {
	std::hint::black_box((col, source_dir));
	col
}

fn options(path: &Path, background: bool) -> Options {
	let mut o = Options::with_columns(path, (CANDIDATES + 1) as u8);
	for c in o.columns.iter_mut() {
		*c = ColumnOptions { uniform: true, ..Default::default() };
	}
	// Zero salt: with the instrumentation feature the hash of a uniform key is the key itself,
	// the index chunk of a key is chosen by its leading bits.
	o.salt = Some([0; 32]);
	o.with_background_thread = background;
	if !background {
		// Building the source by hand: no need to wait for the disk at every step.
		o.sync_wal = false;
		o.sync_data = false;
	}
	o
}

fn step(db: &Db) {
	db.process_commits().unwrap();
	db.flush_logs().unwrap();
	db.enact_logs().unwrap();
	db.clean_logs().unwrap();
}

fn reindex_step(db: &Db) {
	db.process_reindex().unwrap();
	db.flush_logs().unwrap();
	db.enact_logs().unwrap();
	db.clean_logs().unwrap();
}

fn key(rng: &mut SmallRng, n: u64) -> Vec<u8> {
	let mut k = vec![0u8; 32];
	rng.fill_bytes(&mut k);
	k[24..32].copy_from_slice(&n.to_le_bytes());
	k
}

fn index_files(path: &Path, col: usize) -> Vec<String> {
	let mut v: Vec<String> = std::fs::read_dir(path)
		.unwrap()
		.map(|e| e.unwrap().file_name().to_string_lossy().to_string())
		.filter(|n| n.starts_with(&format!("index_{col:02}_")))
		.collect();
	v.sort();
	v
}

type Model = Vec<HashMap<Vec<u8>, Vec<u8>>>;

fn build_source(path: &Path) -> Model {
	let mut rng = SmallRng::seed_from_u64(20);
	let db = Db::open_or_create(&options(path, false)).unwrap();
	let mut model: Model = vec![HashMap::new(); CANDIDATES + 1];
	let mut n = 0u64;

	// Value lengths that cover the size tiers: every tier a column has a value in is one file.
	let mut lens: Vec<usize> = (0..1500).map(|t| (1.0072f64.powi(t)) as usize).collect();
	lens.dedup();

	// The big column. First bring its index to 20 bits while it is nearly empty: 70 keys that share
	// 19 bits.
	let big = CANDIDATES;
	let mut tx = Vec::new();
	for _ in 0..70 {
		n += 1;
		let mut k = key(&mut rng, n);
		k[0] = 0xa0;
		k[1] = 0x00;
		k[2] &= 0x1f;
		let v = n.to_le_bytes().to_vec();
		model[big].insert(k.clone(), v.clone());
		tx.push((big as u8, k, Some(v)));
	}
	db.commit(tx).unwrap();
	step(&db);
	for _ in 0..12 {
		reindex_step(&db);
	}
	assert_eq!(index_files(path, big), vec![format!("index_{big:02}_20")]);

	// Fill it: about 5 keys per chunk.
	let mut left = BIG_KEYS;
	while left > 0 {
		let batch = left.min(100_000);
		let mut tx = Vec::with_capacity(batch);
		for _ in 0..batch {
			n += 1;
			let mut k = key(&mut rng, n);
			if k[0] == 0x50 && k[1] == 0 {
				k[1] = 1;
			}
			let v = (n as u32).to_le_bytes().to_vec();
			// (only a sample of this column is checked afterwards)
			if n % 16 == 0 {
				model[big].insert(k.clone(), v.clone());
			}
			tx.push((big as u8, k, Some(v)));
		}
		db.commit(tx).unwrap();
		step(&db);
		left -= batch;
	}
	assert_eq!(index_files(path, big), vec![format!("index_{big:02}_20")]);

	// And start the growth 20 -> 21 (70 keys that share 20 bits), without moving anything.
	let mut tx = Vec::new();
	for _ in 0..70 {
		n += 1;
		let mut k = key(&mut rng, n);
		k[0] = 0x50;
		k[1] = 0x00;
		k[2] &= 0x0f;
		let v = n.to_le_bytes().to_vec();
		model[big].insert(k.clone(), v.clone());
		tx.push((big as u8, k, Some(v)));
	}
	db.commit(tx).unwrap();
	step(&db);
	assert_eq!(
		index_files(path, big),
		vec![format!("index_{big:02}_20"), format!("index_{big:02}_21")]
	);
	// The small columns come last: from here on `process_reindex` is not called any more (it
	// would start with the lowest column that has work).
	for c in 0..CANDIDATES {
		let mut tx = Vec::new();
		for len in lens.iter() {
			n += 1;
			let k = key(&mut rng, n);
			let v = vec![(n % 251) as u8; *len];
			model[c].insert(k.clone(), v.clone());
			tx.push((c as u8, k, Some(v)));
		}
		db.commit(tx).unwrap();
		step(&db);
		// 70 keys in one chunk of the 16 bit index (they spread over two chunks of the 17 bit
		// index): the index grows, nothing is moved yet.
		let mut tx = Vec::new();
		for _ in 0..70 {
			n += 1;
			let mut k = key(&mut rng, n);
			k[0] = 0x40 + c as u8;
			k[1] = 0x00;
			let v = n.to_le_bytes().to_vec();
			model[c].insert(k.clone(), v.clone());
			tx.push((c as u8, k, Some(v)));
		}
		db.commit(tx).unwrap();
		step(&db);
		assert_eq!(
			index_files(path, c),
			vec![format!("index_{c:02}_16"), format!("index_{c:02}_17")],
			"candidate column {c} is not in the expected state"
		);
	}

	// A clean shutdown: everything committed is in the tables, the index growth of every column
	// is left for the next session (closing a database never waits for that).
	drop(db);
	model
}

/// The directory as `std::fs::read_dir` (libc `readdir64`) sees it: name -> (batch, position in
/// the batch, size of the batch), where a batch is what one `getdents64` call of libc returned.
fn listing(path: &Path) -> HashMap<String, (usize, usize, usize)> {
	let cpath = CString::new(path.as_os_str().as_bytes()).unwrap();
	let mut names: Vec<(String, usize)> = Vec::new();
	unsafe {
		let dir = libc::opendir(cpath.as_ptr());
		assert!(!dir.is_null());
		let fd = libc::dirfd(dir);
		let mut batch = 0usize;
		let mut last_pos = libc::lseek(fd, 0, libc::SEEK_CUR);
		loop {
			let e = libc::readdir64(dir);
			if e.is_null() {
				break
			}
			// The kernel's position moves when libc fetches the next batch of entries.
			let pos = libc::lseek(fd, 0, libc::SEEK_CUR);
			if pos != last_pos {
				batch += 1;
				last_pos = pos;
			}
			let name = CStr::from_ptr((*e).d_name.as_ptr()).to_string_lossy().to_string();
			names.push((name, batch));
		}
		libc::closedir(dir);
	}
	let mut sizes: HashMap<usize, usize> = HashMap::new();
	let mut out = HashMap::new();
	let mut positions: HashMap<usize, usize> = HashMap::new();
	for (_, b) in names.iter() {
		*sizes.entry(*b).or_default() += 1;
	}
	for (name, b) in names {
		let p = positions.entry(b).or_default();
		out.insert(name, (b, *p, sizes[&b]));
		*p += 1;
	}
	out
}

fn missing(db: &Db, col: usize, model: &Model) -> usize {
	model[col].iter().filter(|(k, v)| db.get(col as u8, k).unwrap().as_ref() != Some(*v)).count()
}

#[test]
fn unselected_column_is_copied_while_the_source_finishes_its_index_growth() {
	// One file per table, source and destination are open at the same time.
	unsafe {
		let mut lim = libc::rlimit { rlim_cur: 0, rlim_max: 0 };
		libc::getrlimit(libc::RLIMIT_NOFILE, &mut lim);
		lim.rlim_cur = lim.rlim_max;
		libc::setrlimit(libc::RLIMIT_NOFILE, &lim);
	}
	let dir = tempfile::tempdir().unwrap();
	let src = dir.path().join("src");
	let dst = dir.path().join("dst");
	let t = std::time::Instant::now();
	let model = build_source(&src);
	eprintln!("source built in {:?}", t.elapsed());


	// Choose the column: its new index table is listed in an earlier batch of directory entries
	// than its old one (with some distance to the batch borders, a few files come and go while
	// the source is open).
	let list = listing(&src);
	eprintln!("{} directory entries", list.len());
	let mut chosen = None;
	for c in 0..CANDIDATES {
		let new = list[&format!("index_{c:02}_17")];
		let old = list[&format!("index_{c:02}_16")];
		eprintln!("column {c}: index_17 at {new:?}, index_16 at {old:?}");
		if chosen.is_none() && new.0 < old.0 && new.1 + 40 < new.2 && old.1 > 40 {
			chosen = Some(c);
		}
	}
	// The other small columns are migrated (walked), not copied: the ones before the chosen column
	// are out of the way quickly, and the ones after it can not run into the same race by chance.
	let force: Vec<u8> = match chosen {
		Some(c) => (0..CANDIDATES as u8).filter(|f| *f != c as u8).collect(),
		None => {
			eprintln!("no candidate column fits the directory order of this file system");
			Vec::new()
		},
	};
	let csrc = CString::new(src.as_os_str().as_bytes()).unwrap();
	hunt_target(chosen.map_or(u32::MAX, |c| c as u32), csrc.as_ptr());


	// Diagnostics only: when do the files come and go.
	let watch = {
		let (src, dst) = (src.clone(), dst.clone());
		let stop = std::sync::Arc::new(std::sync::atomic::AtomicBool::new(false));
		let stop2 = stop.clone();
		let h = std::thread::spawn(move || {
			let t = std::time::Instant::now();
			let mut seen = std::collections::HashSet::new();
			while !stop2.load(std::sync::atomic::Ordering::Relaxed) {
				for c in 0..CANDIDATES {
					let gone = !src.join(format!("index_{c:02}_16")).exists();
					if gone && seen.insert(format!("gone{c}")) {
						eprintln!("[watch] {:?}: src/index_{c:02}_16 removed", t.elapsed());
					}
					for b in [16, 17] {
						let there = dst.join(format!("index_{c:02}_{b}")).exists();
						if there && seen.insert(format!("dst{c}_{b}")) {
							eprintln!("[watch] {:?}: dst/index_{c:02}_{b} appears", t.elapsed());
						}
					}
				}
				std::thread::sleep(std::time::Duration::from_millis(20));
			}
		});
		(stop, h)
	};
	let t = std::time::Instant::now();
	let mut to = options(&dst, true);
	to.salt = None;
	let result = parity_db::migrate(&src, to, false, &force);
	eprintln!("migrate returned {:?} after {:?}", result, t.elapsed());
	watch.0.store(true, std::sync::atomic::Ordering::Relaxed);
	watch.1.join().unwrap();
	result.unwrap();

	let db = Db::open(&options(&dst, true)).unwrap();
	let mut report = Vec::new();
	for c in 0..=CANDIDATES {
		let m = missing(&db, c, &model);
		if m != 0 {
			report.push(format!("column {c}: {m} of {} keys are not in the destination", model[c].len()));
		}
	}
	assert!(report.is_empty(), "migrate returned Ok(()), but {report:#?}");
}
