// H4C01 finding 1: a point read of a key that exists and is never touched returns `None` when
// another key, whose index entry sits earlier in the same index chunk and agrees with it on the
// 32 bits the SSE2 search compares, is removed while the reader is inside
// `IndexTable::find_entry_sse2` (src/index.rs): the function finds the matching position with a
// SIMD compare of the memory mapped chunk and then reads the entry at that position from the
// mapped file a second time. If the applier zeroes the entry in between, an empty entry is
// returned and `HashColumn::get_in_index` takes it for "no further match in this chunk".
//
// The window has no call in it, so the schedule is imposed with gdb (tests/hunt_H4C01_1.gdb).
// From the crate root:
//
//   cargo test --offline --features instrumentation --test hunt_H4C01_1 --no-run
//   gdb -batch -x tests/hunt_H4C01_1.gdb --args \
//       $(ls -t target/debug/deps/hunt_H4C01_1-* | grep -v '\.d$' | head -1) \
//       --test-threads=1 --nocapture
//
// -> FAILS: "Db::get of a key that no commit removed returned None while another key was removed"
//
// Without gdb (`cargo test --offline --features instrumentation --test hunt_H4C01_1`) the test
// passes: the reader is long done before the other two threads wake up, and it passes under the
// same gdb schedule once find_entry_sse2 does not hand out an entry it did not compare.

use parity_db::{ColumnOptions, Db, Options};
use std::{sync::Arc, time::Duration};

#[no_mangle]
#[inline(never)]
pub extern "C" fn hunt_h4c01_victim_start() {
	std::hint::black_box(());
}

#[no_mangle]
#[inline(never)]
pub extern "C" fn hunt_h4c01_enacted() {
	std::hint::black_box(());
}

// Uniform column and zero salt (instrumentation): the key bytes are the index key.
// Bytes 0..2 select the chunk of a 16 bit index, bytes 2..6 are the 32 bits that the SSE2 search
// compares, the rest tells the keys apart (checked against the value table).
fn key(id: u8) -> Vec<u8> {
	let mut k = vec![id; 32];
	k[0] = 0x12;
	k[1] = 0x34;
	k[2..6].copy_from_slice(&[0xab, 0xcd, 0xef, 0x01]);
	k[6] = 0x01;
	k
}

fn options(path: &std::path::Path) -> Options {
	let mut o = Options::with_columns(path, 1);
	o.columns[0] = ColumnOptions { uniform: true, ..Default::default() };
	o.salt = Some([0u8; 32]);
	o.stats = false;
	o.with_background_thread = false;
	o.always_flush = true;
	o
}

fn has_written_log(dir: &std::path::Path) -> bool {
	std::fs::read_dir(dir).unwrap().any(|e| {
		let e = e.unwrap();
		let name = e.file_name().to_string_lossy().to_string();
		name.starts_with("log") && name[3..].parse::<u32>().is_ok() && e.metadata().unwrap().len() > 0
	})
}

#[test]
fn untouched_key_stays_readable_while_a_neighbour_is_removed() {
	let tmp = tempfile::tempdir().unwrap();
	let dir = tmp.path().to_path_buf();
	let db = Arc::new(Db::open_or_create(&options(&dir)).unwrap());

	let neighbour = key(0x11); // first entry of the chunk
	let untouched = key(0x22); // second entry of the chunk
	let value = b"the value of the untouched key".to_vec();

	// Both keys go all the way into the files, the log is reclaimed: nothing is left in an overlay.
	db.commit(vec![
		(0u8, neighbour.clone(), Some(b"neighbour".to_vec())),
		(0u8, untouched.clone(), Some(value.clone())),
	])
	.unwrap();
	db.process_commits().unwrap();
	db.flush_logs().unwrap();
	db.enact_logs().unwrap();
	db.clean_logs().unwrap();
	assert_eq!(db.get(0, &neighbour).unwrap(), Some(b"neighbour".to_vec()));
	assert_eq!(db.get(0, &untouched).unwrap(), Some(value.clone()));
	assert!(!has_written_log(&dir));

	// The removal of the neighbour is committed (queued) before the read starts.
	db.commit(vec![(0u8, neighbour.clone(), None)]).unwrap();

	// The reader.
	let victim = {
		let db = db.clone();
		let untouched = untouched.clone();
		std::thread::Builder::new()
			.name("victim".into())
			.spawn(move || {
				hunt_h4c01_victim_start();
				db.get(0, &untouched).unwrap()
			})
			.unwrap()
	};
	// The log worker's step: plans and logs the removal (then cleans the commit overlay, for
	// which it has to wait for the reader).
	let logger = {
		let db = db.clone();
		std::thread::Builder::new()
			.name("logger".into())
			.spawn(move || {
				std::thread::sleep(Duration::from_millis(300));
				db.process_commits().unwrap();
			})
			.unwrap()
	};
	// The flush and commit workers' steps: sync the log file and apply it to the tables.
	let enactor = {
		let db = db.clone();
		let dir = dir.clone();
		std::thread::Builder::new()
			.name("enactor".into())
			.spawn(move || {
				std::thread::sleep(Duration::from_millis(300));
				let start = std::time::Instant::now();
				while !has_written_log(&dir) {
					assert!(start.elapsed() < Duration::from_secs(60), "removal was never logged");
					std::thread::sleep(Duration::from_millis(1));
				}
				db.flush_logs().unwrap();
				db.enact_logs().unwrap();
				hunt_h4c01_enacted();
			})
			.unwrap()
	};

	let read = victim.join().unwrap();
	logger.join().unwrap();
	enactor.join().unwrap();

	// Afterwards everything is as it should be ...
	assert_eq!(db.get(0, &neighbour).unwrap(), None);
	assert_eq!(db.get(0, &untouched).unwrap(), Some(value.clone()));
	// ... but the read that overlapped the removal of the neighbour has to see the value too:
	// the key was written by the first commit and no commit touched it since.
	assert_eq!(
		read,
		Some(value),
		"Db::get of a key that no commit removed returned None while another key was removed"
	);
}
