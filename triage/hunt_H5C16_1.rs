// H5C16 finding 1: `Options::load_metadata_file` decides whether the metadata file is there with
// `Path::exists()`, which answers `false` for ANY failure of the underlying stat call, not only for
// "no such file". `Db::open_or_create` on an existing database then takes the database for a new
// one, draws a fresh random salt and writes a new metadata file over the old one (write aside +
// rename, both succeed). The old salt existed nowhere else: every key of every hashed column is
// unreachable from then on - the whole content of the database is lost, silently (the next open
// succeeds and every `get` answers `None`).
//
// The fault: from the k-th stat call of `Db::open_or_create` on, every stat call fails with EIO
// until the process is "restarted" (flag cleared); for every k. (`std::fs::metadata`,
// `Path::exists`, `Path::is_dir`, `DirEntry::metadata`, `File::metadata` all end in `statx`.)
// Everything else works. k = 2 is the stat behind `path.exists()`; the failing open does report
// an error (a later stat fails as well), but the metadata has been replaced by then.
//
// Run: cargo test --offline --features instrumentation --test hunt_H5C16_1

use parity_db::{Db, Options};
use std::sync::atomic::{AtomicBool, AtomicUsize, Ordering::SeqCst};

static ARMED: AtomicBool = AtomicBool::new(false);
static CALLS: AtomicUsize = AtomicUsize::new(0);
static FAIL_FROM: AtomicUsize = AtomicUsize::new(usize::MAX);

#[no_mangle]
pub unsafe extern "C" fn statx(
	dirfd: libc::c_int,
	path: *const libc::c_char,
	flags: libc::c_int,
	mask: libc::c_uint,
	buf: *mut libc::statx,
) -> libc::c_int {
	if ARMED.load(SeqCst) {
		let n = CALLS.fetch_add(1, SeqCst) + 1;
		if n >= FAIL_FROM.load(SeqCst) {
			*libc::__errno_location() = libc::EIO;
			return -1
		}
	}
	let f: unsafe extern "C" fn(
		libc::c_int,
		*const libc::c_char,
		libc::c_int,
		libc::c_uint,
		*mut libc::statx,
	) -> libc::c_int = std::mem::transmute(libc::dlsym(libc::RTLD_NEXT, b"statx\0".as_ptr() as *const _));
	f(dirfd, path, flags, mask, buf)
}

fn key(i: usize) -> Vec<u8> {
	format!("key number {i}").into_bytes()
}

fn value(i: usize) -> Vec<u8> {
	format!("value number {i}").into_bytes()
}

// Default options: the salt is drawn at creation and kept in the metadata file.
fn options(path: &std::path::Path) -> Options {
	Options::with_columns(path, 1)
}

fn create(path: &std::path::Path) {
	let db = Db::open_or_create(&options(path)).unwrap();
	db.commit((0..20).map(|i| (0u8, key(i), Some(value(i))))).unwrap();
}

fn salt_line(path: &std::path::Path) -> String {
	std::fs::read_to_string(path.join("metadata"))
		.unwrap()
		.lines()
		.find(|l| l.starts_with("salt="))
		.unwrap()
		.to_string()
}

#[test]
fn a_failing_stat_during_open_or_create_does_not_replace_the_salt() {
	let tmp = concat!(env!("CARGO_MANIFEST_DIR"), "/tmp");
	std::fs::create_dir_all(tmp).unwrap();

	// Number of stat calls of a fault free open_or_create of the existing database.
	let total = {
		let dir = tempfile::tempdir_in(tmp).unwrap();
		let path = dir.path().join("db");
		create(&path);
		CALLS.store(0, SeqCst);
		FAIL_FROM.store(usize::MAX, SeqCst);
		ARMED.store(true, SeqCst);
		let db = Db::open_or_create(&options(&path)).unwrap();
		ARMED.store(false, SeqCst);
		drop(db);
		CALLS.load(SeqCst)
	};
	eprintln!("a fault free open_or_create makes {total} stat calls");
	assert!(total >= 3);

	let mut ks: Vec<usize> = (1..=8).collect();
	ks.extend([total / 2, total - 1, total, total + 1]);
	let mut bad = Vec::new();
	for k in ks {
		let dir = tempfile::tempdir_in(tmp).unwrap();
		let path = dir.path().join("db");
		create(&path);
		let salt_before = salt_line(&path);

		CALLS.store(0, SeqCst);
		FAIL_FROM.store(k, SeqCst);
		ARMED.store(true, SeqCst);
		let result = Db::open_or_create(&options(&path)).map(|db| drop(db));
		ARMED.store(false, SeqCst); // "restart": the fault is gone

		let salt_after = salt_line(&path);
		let db = match Db::open(&options(&path)) {
			Ok(db) => db,
			Err(e) => {
				bad.push(format!("k={k}: open_or_create -> {result:?}; reopen fails: {e}"));
				continue
			},
		};
		let missing: Vec<usize> =
			(0..20).filter(|i| db.get(0, &key(*i)).unwrap() != Some(value(*i))).collect();
		if !missing.is_empty() || salt_before != salt_after {
			bad.push(format!(
				"k={k}: open_or_create -> {:?}; after the restart {} of 20 committed keys are gone; \
				 metadata before: {salt_before}, after: {salt_after}",
				result.map_err(|e| e.to_string()),
				missing.len()
			));
		}
	}
	assert!(bad.is_empty(), "committed data lost after a failed stat:\n{}", bad.join("\n"));
}
