#![cfg(feature = "instrumentation")]
//! C11, first sentence: "While a client holds the read lock of a tree reader, the root and all
//! nodes of that tree remain readable and unchanged even if the tree is dereferenced ..."
//!
//! A tree reader is a self-contained `Arc<RwLock<Box<dyn TreeReader + Send + Sync>>>` (it owns an
//! `Arc<DbInner>`), so nothing stops a reader thread from still holding its guard when the owner of
//! the `Db` closes the handle and opens the database again (restart of the database object, or one
//! of the administration calls that need a closed database). `Db::drop` returns at once (no removal
//! is pending), gives the directory lock back although the old `DbInner` is kept alive by the
//! reader, and the second handle knows nothing about the lock that is still held: it removes the
//! tree at once and recycles its slots. Under the SAME guard the reader first loses root and
//! nodes and then reads the nodes of a foreign tree at its own addresses.
//!
//! A correct library either keeps the tree intact for the guard, or does not let the directory be
//! opened a second time while readers of the previous handle are alive (`Error::Locked`); both are
//! accepted here.
//!
//! cargo test --offline --features instrumentation --test hunt_H4C11_1

use parity_db::{ColumnOptions, Db, Error, NewNode, NodeRef, Operation, Options};

const WORKTREE_TMP: &str = concat!(env!("CARGO_MANIFEST_DIR"), "/tmp");

fn options(path: &std::path::Path) -> Options {
	let mut o = Options::with_columns(path, 1);
	o.columns[0] = ColumnOptions { multitree: true, ..Default::default() };
	// Stepping mode: every stage is driven by hand, nothing depends on timing.
	o.with_background_thread = false;
	o.always_flush = true;
	o
}

fn drive(db: &Db) {
	for _ in 0..4 {
		db.process_commits().unwrap();
		db.flush_logs().unwrap();
		db.enact_logs().unwrap();
		db.clean_logs().unwrap();
	}
}

fn tree(tag: u8) -> NewNode {
	NewNode {
		data: vec![tag; 16],
		children: vec![
			NodeRef::New(NewNode { data: vec![tag, 1], children: vec![] }),
			NodeRef::New(NewNode { data: vec![tag, 2], children: vec![] }),
		],
	}
}

type Snapshot = (Option<(Vec<u8>, Vec<u64>)>, Vec<Option<Vec<u8>>>);

#[test]
fn guard_of_a_reader_survives_close_and_reopen() {
	std::fs::create_dir_all(WORKTREE_TMP).unwrap();
	let dir = tempfile::tempdir_in(WORKTREE_TMP).unwrap();
	let opts = options(dir.path());
	let key_a = vec![0xA1u8; 32];
	let key_c = vec![0xC3u8; 32];

	let db = Db::open_or_create(&opts).unwrap();
	db.commit_changes(vec![(0, Operation::InsertTree(key_a.clone(), tree(1)))]).unwrap();
	drive(&db);

	// A reader thread's state: the reader and its guard.
	let reader = db.get_tree(0, &key_a).unwrap().expect("tree A exists");
	let guard = reader.read();
	let (_data, addresses) = guard.get_root().unwrap().expect("root of A");
	let read_all = |g: &dyn parity_db::TreeReader| -> Snapshot {
		(
			g.get_root().unwrap(),
			addresses.iter().map(|a| g.get_node(*a).unwrap().map(|n| n.0)).collect(),
		)
	};
	let before = read_all(&**guard);
	assert_eq!(before.0, Some((vec![1; 16], addresses.clone())));
	assert_eq!(before.1, vec![Some(vec![1, 1]), Some(vec![1, 2])]);

	// The owner closes the handle. Nothing is pending, this returns at once.
	drop(db);
	// The guard is still good for reading.
	assert_eq!(read_all(&**guard), before, "right after the handle was closed");

	// ... and opens the database again, the reader still holds its lock.
	match Db::open(&opts) {
		Err(Error::Locked(_)) => {
			// Fine: the directory stays taken while readers of the closed handle are alive.
			return
		},
		Err(e) => panic!("unexpected error {e:?}"),
		Ok(db2) => {
			// The pruner removes A, the writer inserts another tree.
			db2.commit_changes(vec![(0, Operation::DereferenceTree(key_a.clone()))]).unwrap();
			drive(&db2);
			let after_removal = read_all(&**guard);
			db2.commit_changes(vec![(0, Operation::InsertTree(key_c.clone(), tree(3)))]).unwrap();
			drive(&db2);
			let after_reuse = read_all(&**guard);
			drop(db2);
			assert_eq!(
				(after_removal, after_reuse),
				(before.clone(), before),
				"the tree changed under a read lock that was held all the time \
				 (left: after the removal / after the next insertion; right: expected)"
			);
		},
	}
	drop(guard);
}
