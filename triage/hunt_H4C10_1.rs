// Property C10, second-round hunt (H4C10), finding 1.
//
// A transaction `[DereferenceTree(A), InsertTree(N)]` that is processed while a TreeReader lock on A
// is held is split by `DbInner::process_commits`: the insertion is written to the log, the removal of
// A goes to the back of the in-memory commit queue under a new id. If the process stops before the
// postponed removal is logged, the database that is recovered holds N (the transaction was applied)
// AND the whole tree A (the same transaction was not applied): A was dereferenced by a transaction
// that is durably part of the state, but its root and nodes never disappear and their storage is
// never reclaimed - after every tree has been dereferenced the column still holds A's entries.
//
// The same holds for two separate transactions: `[DereferenceTree(A)]` (postponed) followed by
// `[InsertTree(N)]`: the later transaction survives the crash, the earlier accepted one does not.
//
// Run: cargo test --offline --features instrumentation --test hunt_H4C10_1
//
// The controls run the identical history without a reader lock at the moment the transaction is
// processed and pass.

use parity_db::{ColumnOptions, Db, NewNode, NodeRef, Operation, Options};
use std::path::Path;

fn options(path: &Path) -> Options {
	// column 0: trees, column 1: plain key-value column for the application's own bookkeeping
	let mut o = Options::with_columns(path, 2);
	o.with_background_thread = false;
	o.always_flush = true;
	o.columns[0] =
		ColumnOptions { multitree: true, allow_direct_node_access: true, ..Default::default() };
	o
}

fn leaf(data: &[u8]) -> NodeRef {
	NodeRef::New(NewNode { data: data.to_vec(), children: vec![] })
}

fn tree(tag: &[u8]) -> NewNode {
	NewNode {
		data: [tag, b"-root"].concat(),
		children: vec![
			leaf(&[tag, b"-1"].concat()),
			NodeRef::New(NewNode {
				data: [tag, b"-2"].concat(),
				children: vec![leaf(&[tag, b"-2-1"].concat())],
			}),
		],
	}
}

fn copy_dir(from: &Path, to: &Path) {
	std::fs::create_dir_all(to).unwrap();
	for e in std::fs::read_dir(from).unwrap() {
		let e = e.unwrap();
		if e.file_name() == "lock" {
			continue
		}
		std::fs::copy(e.path(), to.join(e.file_name())).unwrap();
	}
}

fn pipeline(db: &Db) {
	db.process_commits().unwrap();
	db.flush_logs().unwrap();
	db.enact_logs().unwrap();
	db.clean_logs().unwrap();
}

// `one_transaction`: [Deref(A), Insert(N)] in one commit, else two commits.
// `locked`: a reader of A holds its lock while the worker looks at the commits.
fn run(one_transaction: bool, locked: bool) {
	let dir = tempfile::tempdir().unwrap();
	let path = dir.path().join("db");
	let db = Db::open_or_create(&options(&path)).unwrap();

	db.commit_changes(vec![(0, Operation::InsertTree(b"tree-A".to_vec(), tree(b"A")))]).unwrap();
	pipeline(&db);
	assert_eq!(db.get_num_column_value_entries(0).unwrap(), 4);

	// A client reads tree A ...
	let reader = db.get_tree(0, b"tree-A").unwrap().unwrap();
	let guard = if locked { Some(reader.read()) } else { None };
	if let Some(g) = &guard {
		assert!(g.get_root().unwrap().is_some());
	}

	// ... while the block import replaces A by N.
	if one_transaction {
		db.commit_changes(vec![
			(0, Operation::DereferenceTree(b"tree-A".to_vec())),
			(0, Operation::InsertTree(b"tree-N".to_vec(), tree(b"N"))),
		])
		.unwrap();
	} else {
		db.commit_changes(vec![(0, Operation::DereferenceTree(b"tree-A".to_vec()))]).unwrap();
		db.commit_changes(vec![(0, Operation::InsertTree(b"tree-N".to_vec(), tree(b"N")))])
			.unwrap();
	}
	// The log worker takes the commits, the flush worker syncs the log, the commit worker applies it.
	db.process_commits().unwrap();
	db.process_commits().unwrap();
	db.flush_logs().unwrap();
	db.enact_logs().unwrap();

	// The client is done with A.
	drop(guard);

	// Power failure before the log worker runs again.
	let crashed = dir.path().join("crashed");
	copy_dir(&path, &crashed);
	drop(db);

	let db = Db::open(&options(&crashed)).unwrap();
	let n = db.get_root(0, b"tree-N").unwrap();
	let a = db.get_root(0, b"tree-A").unwrap();
	// The recovered state has to be one the history went through: {A} (nothing of the replacement
	// survived) or {N} (all of it did).
	if n.is_some() {
		assert!(
			a.is_none(),
			"tree N of the replacing transaction survived the crash, the removal of tree A that was \
			 accepted {} did not: root A = {:?}",
			if one_transaction { "in the same transaction" } else { "in the transaction before it" },
			a.map(|r| String::from_utf8_lossy(&r.0).to_string()),
		);
	}

	// Dereference every tree the history left alive.
	if n.is_some() {
		db.commit_changes(vec![(0, Operation::DereferenceTree(b"tree-N".to_vec()))]).unwrap();
	} else {
		db.commit_changes(vec![(0, Operation::DereferenceTree(b"tree-A".to_vec()))]).unwrap();
	}
	pipeline(&db);
	assert_eq!(
		db.get_num_column_value_entries(0).unwrap(),
		0,
		"every tree was dereferenced, the column still holds entries"
	);
}

// The pattern of the only multitree client in the repository (admin/src/multitree_bench, `try_prune`):
// `[DereferenceTree(oldest), Set(info column, number of pruned trees)]` in one transaction; after a
// restart the client continues pruning from the stored number.
#[test]
fn pruning_bookkeeping_survives_the_crash_without_the_pruning() {
	let dir = tempfile::tempdir().unwrap();
	let path = dir.path().join("db");
	let db = Db::open_or_create(&options(&path)).unwrap();
	db.commit_changes(vec![
		(0, Operation::InsertTree(b"tree-0".to_vec(), tree(b"0"))),
		(0, Operation::InsertTree(b"tree-1".to_vec(), tree(b"1"))),
		(1, Operation::Set(b"pruned".to_vec(), vec![0])),
	])
	.unwrap();
	pipeline(&db);

	let reader = db.get_tree(0, b"tree-0").unwrap().unwrap();
	let guard = reader.read();
	assert!(guard.get_root().unwrap().is_some());
	db.commit_changes(vec![
		(0, Operation::DereferenceTree(b"tree-0".to_vec())),
		(1, Operation::Set(b"pruned".to_vec(), vec![1])),
	])
	.unwrap();
	db.process_commits().unwrap();
	db.flush_logs().unwrap();
	db.enact_logs().unwrap();
	drop(guard);

	let crashed = dir.path().join("crashed");
	copy_dir(&path, &crashed);
	drop(db);

	let db = Db::open(&options(&crashed)).unwrap();
	let pruned = db.get(1, b"pruned").unwrap().unwrap()[0];
	let tree_0 = db.get_root(0, b"tree-0").unwrap();
	assert_eq!(
		tree_0.is_some(),
		pruned == 0,
		"after the crash the bookkeeping value written by the pruning transaction is {pruned}, \
		 tree-0 present = {}",
		tree_0.is_some()
	);
}

#[test]
fn replaced_tree_comes_back_after_crash_one_transaction() {
	run(true, true);
}

#[test]
fn replaced_tree_comes_back_after_crash_two_transactions() {
	run(false, true);
}

#[test]
fn control_one_transaction_no_reader() {
	run(true, false);
}

#[test]
fn control_two_transactions_no_reader() {
	run(false, false);
}
