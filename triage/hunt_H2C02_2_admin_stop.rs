// C02 hunt, round 2, finding 2.
//
// `clear_column` (and `Db::reset_column`, `Db::drop_last_column`, all through
// `Column::drop_files`) removes the files of a column one `remove_file` at a time, in directory
// order, with nothing that marks the column as "being removed". A process stop between two of the
// removals leaves a column that is neither the old one nor an empty one:
//  - value table gone, index still there: `Db::open` succeeds, `Db::get` of an old key panics
//    (`TableFile::slice_at` unwraps the missing mapping);
//  - index gone, value tables still there: `get` says the column is empty, `iter_column_while`
//    still yields the old values, the old slots are never reused.
// Which of the two shows up depends on the directory order of the file system, every order has
// at least one bad stop.
//
// Run: cargo test --offline --features instrumentation --test hunt_H2C02_2 -- --nocapture --test-threads=1

#![cfg(feature = "instrumentation")]

use parity_db::{clear_column, set_number_of_allowed_io_operations, Db, Options};
use std::path::Path;

fn options(path: &Path) -> Options {
	let mut o = Options::with_columns(path, 2);
	o.stats = false;
	o.with_background_thread = false;
	o
}

fn key(i: u8) -> Vec<u8> {
	vec![b'k', i]
}

// Two size tiers: two value table files.
fn value(i: u8) -> Vec<u8> {
	if i % 2 == 0 {
		vec![i; 8]
	} else {
		vec![i; 300]
	}
}

const KEYS: u8 = 6;

fn copy_image(from: &Path, to: &Path) {
	std::fs::create_dir_all(to).unwrap();
	for e in std::fs::read_dir(from).unwrap() {
		let e = e.unwrap();
		let name = e.file_name();
		if name == "lock" {
			continue
		}
		std::fs::copy(e.path(), to.join(name)).unwrap();
	}
}

fn files(dir: &Path) -> Vec<String> {
	let mut v: Vec<String> = std::fs::read_dir(dir)
		.unwrap()
		.map(|e| e.unwrap().file_name().to_string_lossy().to_string())
		.filter(|n| n != "lock")
		.collect();
	v.sort();
	v
}

#[test]
fn stop_inside_clear_column_leaves_the_old_or_an_empty_column() {
	// A cleanly closed database, columns 0 and 1 hold the same keys.
	let image = tempfile::tempdir().unwrap();
	{
		let db = Db::open_or_create(&options(image.path())).unwrap();
		db.commit((0..KEYS).flat_map(|i| {
			[(0u8, key(i), Some(value(i))), (1u8, key(i), Some(value(i)))]
		}))
		.unwrap();
	}
	println!("closed database: {:?}", files(image.path()));

	let mut bad = Vec::new();
	for allowed in 0..100_000usize {
		let dir = tempfile::tempdir().unwrap();
		copy_image(image.path(), dir.path());
		set_number_of_allowed_io_operations(allowed);
		let r = clear_column(dir.path(), 0);
		set_number_of_allowed_io_operations(usize::MAX);
		let after = files(dir.path());

		let db = match Db::open(&options(dir.path())) {
			Ok(db) => db,
			Err(e) => {
				bad.push(format!("stop after {allowed} ops: {after:?}: reopen failed: {e}"));
				continue
			},
		};
		let mut present = 0;
		let mut other = Vec::new();
		for i in 0..KEYS {
			let got =
				std::panic::catch_unwind(std::panic::AssertUnwindSafe(|| db.get(0, &key(i))));
			match got {
				Ok(Ok(Some(v))) if v == value(i) => present += 1,
				Ok(Ok(None)) => (),
				Ok(Ok(Some(_))) => other.push(format!("get({i}): wrong value")),
				Ok(Err(e)) => other.push(format!("get({i}): {e}")),
				Err(_) => other.push(format!("get({i}): PANIC")),
			}
			// The other column is never touched.
			assert_eq!(db.get(1, &key(i)).unwrap(), Some(value(i)));
		}
		let mut iterated = 0;
		let it = std::panic::catch_unwind(std::panic::AssertUnwindSafe(|| {
			db.iter_column_while(0, |_| {
				iterated += 1;
				true
			})
		}));
		if !matches!(it, Ok(Ok(()))) {
			other.push("iter_column_while failed".to_string());
		}
		drop(db);
		let old = present == KEYS as usize && iterated == KEYS as usize;
		let empty = present == 0 && iterated == 0;
		if !other.is_empty() || !(old || empty) {
			bad.push(format!(
				"stop after {allowed} ops: {after:?}: get finds {present} of {KEYS}, iteration finds {iterated}, {other:?}"
			));
		}
		if r.is_ok() {
			assert!(empty);
			println!("clear_column needs {allowed} file operations");
			break
		}
	}
	for b in &bad {
		println!("{b}");
	}
	assert!(bad.is_empty(), "{} stops leave a half removed column, first: {}", bad.len(), bad[0]);
}
