// H2C10 finding 1: dereferencing a tree whose nodes form a long chain overflows the stack of the
// log worker (the process aborts), the tree can never be removed.
//
// Property C10: "when the last reference goes, the root and every node no longer reachable from a
// live tree disappear and their storage is reclaimed ... so that after all trees are dereferenced
// the column holds zero entries", quantified over "arbitrary tree shapes (depth, ...)".
//
// The chain is built the way an application would build a long linked structure: every commit
// inserts a small tree (root -> 10 new nodes) whose lowest node references, as an existing
// address, the top node of the previous tree; the previous tree is dereferenced right away.
// No `NewNode` value is ever deeper than 11 levels. After `LINKS` commits the column holds ONE
// live tree: a root and a chain of 10 * LINKS nodes.
//
// Dereferencing that tree makes `IndexedChangeSet::write_dereference_children_plan` (src/db.rs)
// recurse once per level on the log worker thread (a `std::thread::spawn` thread with the default
// 2 MiB stack). Around 4 000 levels (debug build) / 16 000 levels (release build) the stack
// overflows: "thread '<unknown>' has overflowed its stack, fatal runtime error: stack overflow"
// and the whole process is aborted with SIGABRT.
//
// Because the process dies, the scenario runs in a child process (this same test binary,
// re-executed with H2C10_CHILD_DIR set). The control builds a tree with the same number of nodes
// but fan-out 200 / depth 2 and passes.
//
// Run: cargo test --offline --features instrumentation --test hunt_H2C10_1
// (the feature is not needed by this test, it only keeps the build identical to the other hunts)

use parity_db::{ColumnOptions, Db, NewNode, NodeRef, Operation, Options};
use std::{
	path::Path,
	time::{Duration, Instant},
};

const COL: u8 = 0;
const LEVELS_PER_COMMIT: u64 = 10;

fn links() -> u64 {
	std::env::var("H2C10_LINKS").ok().and_then(|s| s.parse().ok()).unwrap_or(2000)
}

fn options(path: &Path) -> Options {
	let mut o = Options::with_columns(path, 1);
	o.columns[0] =
		ColumnOptions { multitree: true, allow_direct_node_access: true, ..Default::default() };
	o
}

fn key(i: u64) -> Vec<u8> {
	format!("tree-{i}").into_bytes()
}

fn wait_for_entries(db: &Db, expected: u64, what: &str) {
	let start = Instant::now();
	loop {
		let entries = db.get_num_column_value_entries(COL).unwrap();
		if entries == expected {
			return
		}
		assert!(
			start.elapsed() < Duration::from_secs(120),
			"{what}: {entries} entries after 120 s, expected {expected}"
		);
		std::thread::sleep(Duration::from_millis(10));
	}
}

// Builds the chain, leaves exactly one live tree (key(links - 1)).
fn build_chain(db: &Db, links: u64) {
	let mut top_of_previous: Option<u64> = None;
	for i in 0..links {
		// lowest new node first
		let mut node = NewNode {
			data: format!("node {i}.0").into_bytes(),
			children: top_of_previous.map(NodeRef::Existing).into_iter().collect(),
		};
		for level in 1..LEVELS_PER_COMMIT {
			node = NewNode {
				data: format!("node {i}.{level}").into_bytes(),
				children: vec![NodeRef::New(node)],
			};
		}
		let root = NewNode { data: b"root".to_vec(), children: vec![NodeRef::New(node)] };
		db.commit_changes(vec![(COL, Operation::InsertTree(key(i), root))]).unwrap();
		let (_data, children) = db.get_root(COL, &key(i)).unwrap().expect("tree was just inserted");
		top_of_previous = Some(children[0]);
		if i > 0 {
			// The nodes of tree i-1 stay alive: they are referenced by tree i.
			db.commit_changes(vec![(COL, Operation::DereferenceTree(key(i - 1)))]).unwrap();
		}
	}
	wait_for_entries(db, 1 + links * LEVELS_PER_COMMIT, "building the chain");
}

// Runs only in the child process.
#[test]
fn child_scenario() {
	let Ok(dir) = std::env::var("H2C10_CHILD_DIR") else { return };
	let links = links();
	let db = Db::open_or_create(&options(Path::new(&dir))).unwrap();
	build_chain(&db, links);

	// Sanity: the live tree reads back, walk it from the root to the bottom of the chain.
	let (data, mut children) = db.get_root(COL, &key(links - 1)).unwrap().unwrap();
	assert_eq!(data, b"root".to_vec());
	let mut depth = 0;
	while let Some(address) = children.first() {
		let (_data, c) = db.get_node(COL, *address).unwrap().expect("chain node");
		children = c;
		depth += 1;
	}
	assert_eq!(depth, links * LEVELS_PER_COMMIT);
	eprintln!("child: one live tree, chain of {depth} nodes; dereferencing it");

	db.commit_changes(vec![(COL, Operation::DereferenceTree(key(links - 1)))]).unwrap();
	wait_for_entries(&db, 0, "after the last tree was dereferenced");
	// The entry count drops while the record is planned, the root disappears when it is logged.
	let start = Instant::now();
	while db.get_root(COL, &key(links - 1)).unwrap().is_some() {
		assert!(start.elapsed() < Duration::from_secs(120), "root still readable");
		std::thread::sleep(Duration::from_millis(10));
	}
	drop(db);
	eprintln!("child: done");
}

fn run_child(dir: &Path) -> std::process::Output {
	std::process::Command::new(std::env::current_exe().unwrap())
		.args(["child_scenario", "--exact", "--nocapture", "--test-threads=1"])
		.env("H2C10_CHILD_DIR", dir)
		.output()
		.unwrap()
}

#[test]
fn a_tree_with_a_long_chain_of_nodes_can_be_dereferenced() {
	let tmp = tempfile::tempdir().unwrap();
	let dir = tmp.path().join("db");
	let out = run_child(&dir);
	if out.status.success() {
		return
	}
	let stderr = String::from_utf8_lossy(&out.stderr);
	let tail: Vec<&str> = stderr.lines().rev().take(6).collect();
	// What is left behind: the tree is still there and can not be removed.
	let db = Db::open(&options(&dir)).unwrap();
	let links = links();
	let root_still_there = db.get_root(COL, &key(links - 1)).unwrap().is_some();
	let entries = db.get_num_column_value_entries(COL).unwrap();
	panic!(
		"the process that dereferenced the only live tree (chain of {} nodes) died: {:?}\n\
		 last lines of its stderr (newest first): {:#?}\n\
		 after reopening: root still present = {}, {} value entries (expected 0)",
		links * LEVELS_PER_COMMIT,
		out.status,
		tail,
		root_still_there,
		entries,
	);
}

// Control: as many nodes, but wide instead of deep. Passes.
#[test]
fn control_a_wide_tree_with_as_many_nodes_can_be_dereferenced() {
	let tmp = tempfile::tempdir().unwrap();
	let db = Db::open_or_create(&options(tmp.path())).unwrap();
	let total = links() * LEVELS_PER_COMMIT;
	let per_branch = 200;
	let branches = total / per_branch;
	assert!(branches <= 255);
	let root = NewNode {
		data: b"root".to_vec(),
		children: (0..branches)
			.map(|b| {
				NodeRef::New(NewNode {
					data: format!("branch {b}").into_bytes(),
					children: (0..per_branch - 1)
						.map(|l| {
							NodeRef::New(NewNode {
								data: format!("leaf {b}.{l}").into_bytes(),
								children: vec![],
							})
						})
						.collect(),
				})
			})
			.collect(),
	};
	db.commit_changes(vec![(COL, Operation::InsertTree(key(0), root))]).unwrap();
	wait_for_entries(&db, 1 + branches * per_branch, "wide tree inserted");
	db.commit_changes(vec![(COL, Operation::DereferenceTree(key(0)))]).unwrap();
	wait_for_entries(&db, 0, "wide tree dereferenced");
}
