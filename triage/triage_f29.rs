// HC17 finding 1: column administration on a database whose stored format version is older than
// CURRENT_VERSION (but still supported: LAST_SUPPORTED_VERSION = 4 ..= 7) rewrites the metadata
// file with `version=8`. Nothing is migrated, so every *other* column is from then on interpreted
// with the wrong format version. For `uniform` columns the key hashing differs between version 7
// (key XOR salt) and version 8 (siphash), so all their content becomes unreachable.
//
// Run: cargo test --offline --test hunt_HC17_1

use parity_db::{ColumnOptions, Db, Options};

const OLD_VERSION: u32 = 7;

fn key(i: u32) -> Vec<u8> {
	// 32 bytes, "uniform" enough for the purpose.
	let mut k = [0u8; 32];
	for (n, b) in k.iter_mut().enumerate() {
		*b = (i as u8).wrapping_mul(31).wrapping_add(n as u8).wrapping_mul(17) ^ (i >> 8) as u8;
	}
	k[0..4].copy_from_slice(&i.to_le_bytes());
	k.to_vec()
}

fn value(i: u32) -> Vec<u8> {
	format!("value-{i}").into_bytes()
}

fn salt() -> [u8; 32] {
	let mut s = [0u8; 32];
	for (n, b) in s.iter_mut().enumerate() {
		*b = 0xA5 ^ (n as u8).wrapping_mul(7);
	}
	s
}

/// Create a version-7 database (as left behind by an older release) with content in column 0
/// (uniform) and column 1 (default), using only the public API.
fn make_old_db(path: &std::path::Path) -> Options {
	let mut options = Options::with_columns(path, 2);
	options.columns[0].uniform = true;
	std::fs::create_dir_all(path).unwrap();
	options.write_metadata_with_version(path, &salt(), Some(OLD_VERSION)).unwrap();
	{
		let db = Db::open(&options).unwrap();
		db.commit((0..50u32).map(|i| (0u8, key(i), Some(value(i))))).unwrap();
		db.commit((0..50u32).map(|i| (1u8, key(i), Some(value(i))))).unwrap();
	}
	// Sanity: the version is kept by plain open/close and the content is readable.
	assert_eq!(Options::load_metadata(path).unwrap().unwrap().version, OLD_VERSION);
	check_content(&options, "before the administration call");
	options
}

fn check_content(options: &Options, when: &str) {
	let db = Db::open(options).unwrap();
	for c in 0..2u8 {
		for i in 0..50u32 {
			assert_eq!(
				db.get(c, &key(i)).unwrap(),
				Some(value(i)),
				"column {c} key {i} lost {when}"
			);
		}
	}
}

#[test]
fn add_column_keeps_other_columns_of_old_version_db() {
	let dir = tempfile::tempdir().unwrap();
	let path = dir.path().join("db");
	let mut options = make_old_db(&path);

	Db::add_column(&mut options, ColumnOptions::default()).unwrap();
	assert_eq!(options.columns.len(), 3);

	check_content(&options, "after add_column");
}

#[test]
fn drop_last_column_keeps_other_columns_of_old_version_db() {
	let dir = tempfile::tempdir().unwrap();
	let path = dir.path().join("db");
	let mut options = make_old_db(&path);
	// Third, empty column to be dropped. Write the 3-column metadata at the old version directly
	// so that this test does not depend on add_column.
	options.columns.push(ColumnOptions::default());
	options.write_metadata_with_version(&path, &salt(), Some(OLD_VERSION)).unwrap();
	check_content(&options, "before drop_last_column");

	Db::drop_last_column(&mut options).unwrap();
	assert_eq!(options.columns.len(), 2);

	check_content(&options, "after drop_last_column");
}

#[test]
fn reset_column_keeps_other_columns_of_old_version_db() {
	let dir = tempfile::tempdir().unwrap();
	let path = dir.path().join("db");
	let mut options = make_old_db(&path);
	options.columns.push(ColumnOptions::default());
	options.write_metadata_with_version(&path, &salt(), Some(OLD_VERSION)).unwrap();

	let new = ColumnOptions { preimage: true, ..Default::default() };
	Db::reset_column(&mut options, 2, Some(new)).unwrap();

	check_content(&options, "after reset_column");
}
