// Property C16: "... the failure is reported - the failing call returns it ... - reads keep
// returning committed data, no panic occurs, and after the fault is gone reopening yields a prefix
// of the committed transactions ..."; quantifier: "... index and ref-count file creation, table
// growth ...; with and without background threads".
//
// Violation (without background threads): when `enact_logs` fails in the middle of a record the log
// reader stays where it was - somewhere inside the record. With background threads this is guarded
// (`kill_logs`: "On error the log reader may be left in inconsistent state. So it is important to no
// attempt any further log enactment"), but that guard looks at `bg_err`, which only the worker
// threads set. Without them `Db::drop` -> `kill_logs` (and a second call of `Db::enact_logs`) goes
// on reading from the middle of the record and takes whatever bytes come next for a record header.
// A running database does not check record ids or checksums, and `enact_logs` indexes
// `self.columns[..]` with the column id it finds.
//
// Here the failing operation is the creation of the new index file of a reindex (`set_len` in
// `IndexTable::enact_plan`). The reader is left in front of the 8 byte entry mask of the index chunk.
// The first entry of an empty chunk has mask 1 = BEGIN_RECORD; the low bytes of the index entry
// that follows (size tier, value slot 3 = INSERT_VALUE, ...) are then taken for an action of column
// 128: `Db::drop` panics with "index out of bounds: the len is 1 but the index is 128".
// Every byte involved is ordinary data: mask 1 is what the first insertion into any chunk of a new
// index produces, the "action" byte is the slot number of the value.
//
// Fault: from the `set_len` on, every write/fdatasync/fsync/ftruncate/msync of the process fails
// with EIO (real errno, interposed in this binary), until "restart".
//
// Run: cargo test --offline --features instrumentation --test hunt_H2C16_2

use parity_db::{ColumnOptions, Db, Options};
use std::{
	panic::{catch_unwind, AssertUnwindSafe},
	sync::atomic::{AtomicBool, AtomicUsize, Ordering::SeqCst},
};

static FAILING: AtomicBool = AtomicBool::new(false);
static FAILED_CALLS: AtomicUsize = AtomicUsize::new(0);

fn fail() -> isize {
	FAILED_CALLS.fetch_add(1, SeqCst);
	unsafe { *libc::__errno_location() = libc::EIO };
	-1
}

#[no_mangle]
pub unsafe extern "C" fn write(
	fd: libc::c_int,
	buf: *const libc::c_void,
	count: libc::size_t,
) -> libc::ssize_t {
	if fd > 2 && FAILING.load(SeqCst) {
		return fail()
	}
	libc::syscall(libc::SYS_write, fd, buf, count) as libc::ssize_t
}

#[no_mangle]
pub unsafe extern "C" fn fdatasync(fd: libc::c_int) -> libc::c_int {
	if FAILING.load(SeqCst) {
		return fail() as libc::c_int
	}
	libc::syscall(libc::SYS_fdatasync, fd) as libc::c_int
}

#[no_mangle]
pub unsafe extern "C" fn fsync(fd: libc::c_int) -> libc::c_int {
	if FAILING.load(SeqCst) {
		return fail() as libc::c_int
	}
	libc::syscall(libc::SYS_fsync, fd) as libc::c_int
}

#[no_mangle]
pub unsafe extern "C" fn ftruncate64(fd: libc::c_int, len: libc::off64_t) -> libc::c_int {
	if FAILING.load(SeqCst) {
		return fail() as libc::c_int
	}
	libc::syscall(libc::SYS_ftruncate, fd, len) as libc::c_int
}

#[no_mangle]
pub unsafe extern "C" fn ftruncate(fd: libc::c_int, len: libc::off_t) -> libc::c_int {
	ftruncate64(fd, len as libc::off64_t)
}

#[no_mangle]
pub unsafe extern "C" fn msync(
	addr: *mut libc::c_void,
	len: libc::size_t,
	flags: libc::c_int,
) -> libc::c_int {
	if FAILING.load(SeqCst) {
		return fail() as libc::c_int
	}
	libc::syscall(libc::SYS_msync, addr, len, flags) as libc::c_int
}

fn key(chunk: u16, n: u8, bit: u8) -> Vec<u8> {
	// Uniform column, zero salt: the key is its own hash. The first two bytes select the chunk of
	// the 16 bit index.
	let mut k = vec![0u8; 32];
	k[0..2].copy_from_slice(&chunk.to_be_bytes());
	k[2] = n;
	k[6] = bit;
	k[31] = 0x77;
	k
}

fn step(db: &Db) {
	db.process_commits().unwrap();
	db.flush_logs().unwrap();
	db.enact_logs().unwrap();
	db.clean_logs().unwrap();
}

#[test]
fn drop_after_failed_enact_reads_on_from_the_middle_of_the_record() {
	let _ = env_logger::try_init();
	let dir = tempfile::Builder::new()
		.prefix("hunt_H2C16_db")
		.tempdir_in(env!("CARGO_TARGET_TMPDIR"))
		.unwrap();
	let mut options = Options::with_columns(dir.path(), 1);
	options.columns[0] = ColumnOptions { uniform: true, ..Default::default() };
	options.salt = Some([0u8; 32]);
	options.with_background_thread = false;

	let value = |n: u8| vec![n; 100];
	let db = Db::open_or_create(&options).unwrap();

	// Three keys elsewhere: value slots 1, 2, 3.
	for n in 1..=3u8 {
		db.commit(vec![(0u8, key(n as u16, 0, 0), Some(value(n)))]).unwrap();
		step(&db);
	}
	// 64 keys fill chunk 0xabcd of the 16 bit index: slots 4..=67.
	let mut all = Vec::new();
	for n in 0..64u8 {
		db.commit(vec![(0u8, key(0xabcd, n, 0), Some(value(n)))]).unwrap();
		step(&db);
		all.push((key(0xabcd, n, 0), value(n)));
	}
	all.push((key(1, 0, 0), value(1)));
	all.push((key(2, 0, 0), value(2)));
	// Slot 3 is freed.
	db.commit(vec![(0u8, key(3, 0, 0), None)]).unwrap();
	step(&db);

	// The 65th key of the chunk starts a reindex; its value goes to slot 3, its index entry to the
	// (not yet created) 17 bit index.
	let k65 = key(0xabcd, 64, 0x40);
	db.commit(vec![(0u8, k65.clone(), Some(value(65)))]).unwrap();
	db.process_commits().unwrap();
	db.flush_logs().unwrap();
	assert!(!dir.path().join("index_00_17").exists());

	// The fault. Creating the index file fails when it is sized.
	FAILING.store(true, SeqCst);
	let r = db.enact_logs();
	assert!(r.is_err(), "the failing enactment must be reported");
	eprintln!("enact_logs returned: {}", r.unwrap_err());
	assert!(dir.path().join("index_00_17").exists(), "the fault was expected at the index creation");

	// Reads keep working.
	assert_eq!(db.get(0, &k65).unwrap(), Some(value(65)));
	for (k, v) in all.iter() {
		assert_eq!(db.get(0, k).unwrap().as_ref(), Some(v));
	}

	// Shutdown with the fault present.
	let dropped = catch_unwind(AssertUnwindSafe(move || drop(db)));
	eprintln!("calls failed by the fault: {}", FAILED_CALLS.load(SeqCst));
	let panic_message = dropped.as_ref().err().map(|e| {
		e.downcast_ref::<String>()
			.cloned()
			.or_else(|| e.downcast_ref::<&str>().map(|s| s.to_string()))
			.unwrap_or_default()
	});

	// Restart without the fault: a prefix that contains everything enacted before.
	FAILING.store(false, SeqCst);
	let db = Db::open(&options).expect("reopen");
	for (k, v) in all.iter() {
		assert_eq!(db.get(0, k).unwrap().as_ref(), Some(v));
	}
	let got = db.get(0, &k65).unwrap();
	assert!(got.is_none() || got == Some(value(65)));

	assert!(panic_message.is_none(), "Db::drop panicked: {}", panic_message.unwrap());
}
