// C09 finding 3: a value that changes size tier while its index entry still lives in an older
// (not yet migrated) index leaves that old entry behind, pointing at a freed value slot. Whoever
// reuses the slot is then reachable through the stale entry.
//
// Run with:
//   cargo test --offline --features instrumentation --test hunt_HC09_3
//
// The value table stores only bytes 6.. of the hashed key and the index stores the first 50 bits,
// so an index entry for K pointing at a slot that holds K2 is told apart only if K and K2 differ
// in bytes 6..32. With the instrumentation identity hash (zero salt, uniform column) a key set in
// which two keys differ only in the index-visible prefix is a legal input, and the stale entry
// makes the store answer for K with K2's value after K was deleted (no crash, no restart).
#![cfg(feature = "instrumentation")]

use parity_db::{Db, Options};

fn options(path: &std::path::Path) -> Options {
	let mut options = Options::with_columns(path, 1);
	options.columns[0].uniform = true;
	options.always_flush = true;
	options.with_background_thread = false;
	options.salt = Some(Default::default());
	options
}

// Same page of i16 for all i; distinct partial keys.
fn key(i: u8) -> Vec<u8> {
	let mut k = [0u8; 32];
	k[2] = i << 1;
	k[31] = i;
	k.to_vec()
}

fn stages(db: &Db) {
	db.process_commits().unwrap();
	db.flush_logs().unwrap();
	db.enact_logs().unwrap();
	db.clean_logs().unwrap();
}

#[test]
fn entry_left_in_old_index_after_tier_change_is_served_for_a_deleted_key() {
	let dir = tempfile::tempdir().unwrap();
	let db = Db::open_or_create(&options(dir.path())).unwrap();

	let k = key(0);
	// K2: other index page (first byte differs), bytes 6..32 equal to K's.
	let mut k2 = k.clone();
	k2[0] = 0x80;

	// Fill one page of i16 (K is one of the 64), then grow 16 -> 17 with a 65th key.
	db.commit((0..64u8).map(|i| (0u8, key(i), Some(vec![i; 4])))).unwrap();
	stages(&db);
	db.commit(vec![(0u8, key(64), Some(vec![64u8; 4]))]).unwrap();
	db.process_commits().unwrap();
	// i16 is now queued for migration; no batch has run yet.

	// K gets a bigger value: moves to another size tier. Its slot in tier 0 is freed, a new entry
	// goes to i17, the entry in i16 stays.
	db.commit(vec![(0u8, k.clone(), Some(vec![7u8; 100]))]).unwrap();
	db.process_commits().unwrap();
	assert_eq!(db.get(0, &k).unwrap(), Some(vec![7u8; 100]));

	// K2 is inserted with a tier 0 value and takes the freed slot.
	db.commit(vec![(0u8, k2.clone(), Some(b"k2".to_vec()))]).unwrap();
	db.process_commits().unwrap();
	assert_eq!(db.get(0, &k2).unwrap(), Some(b"k2".to_vec()));
	assert_eq!(db.get(0, &k).unwrap(), Some(vec![7u8; 100]));

	// K is deleted.
	db.commit(vec![(0u8, k.clone(), None)]).unwrap();
	stages(&db);

	assert_eq!(db.get(0, &k2).unwrap(), Some(b"k2".to_vec()));
	assert_eq!(db.get(0, &k).unwrap(), None, "deleted key answers with another key's value");
}
