#![cfg(feature = "instrumentation")]
//! A transaction that replaces a tree ([DereferenceTree(X), InsertTree(X, new)]) publishes the new
//! root to readers at commit, and loses it when the log worker processes the commit: the read goes
//! from the value of the latest transaction to `None` without any commit in between.
//!
//! cargo test --offline --features instrumentation --test hunt_H3C05_1 -- --nocapture

use parity_db::{ColumnOptions, Db, NewNode, NodeRef, Operation, Options};

fn options(path: &std::path::Path) -> Options {
	let mut options = Options::with_columns(path, 1);
	options.columns[0] = ColumnOptions {
		multitree: true,
		allow_direct_node_access: true,
		..Default::default()
	};
	options.with_background_thread = false;
	options.always_flush = true;
	options.salt = Some([0; 32]);
	options
}

fn drain(db: &Db) {
	for _ in 0..4 {
		db.process_commits().unwrap();
		db.flush_logs().unwrap();
		db.enact_logs().unwrap();
		db.clean_logs().unwrap();
	}
}

fn tree(tag: u8) -> NewNode {
	NewNode {
		data: vec![tag; 20],
		children: vec![
			NodeRef::New(NewNode { data: vec![tag, 1], children: vec![] }),
			NodeRef::New(NewNode { data: vec![tag, 2], children: vec![] }),
		],
	}
}

fn read_tree(db: &Db, key: &[u8]) -> Option<(Vec<u8>, Vec<Vec<u8>>)> {
	let reader = db.get_tree(0, key).unwrap()?;
	let reader = reader.read();
	let (data, children) = reader.get_root().unwrap()?;
	let children =
		children.iter().map(|a| reader.get_node(*a).unwrap().expect("child node").0).collect();
	Some((data, children))
}

#[test]
fn replaced_tree_is_lost_when_the_commit_is_processed() {
	let tmp = tempfile::tempdir().unwrap();
	let db = Db::open_or_create(&options(tmp.path())).unwrap();
	let key = vec![7u8; 32];

	// T1: insert the tree, all the way into the tables.
	db.commit_changes(vec![(0, Operation::InsertTree(key.clone(), tree(1)))]).unwrap();
	drain(&db);
	let old = (vec![1u8; 20], vec![vec![1u8, 1], vec![1u8, 2]]);
	assert_eq!(read_tree(&db, &key), Some(old));

	// T2: replace it. Operations of one transaction apply in the order given: the old tree goes,
	// the new one is inserted under the same key.
	db.commit_changes(vec![
		(0, Operation::DereferenceTree(key.clone())),
		(0, Operation::InsertTree(key.clone(), tree(2))),
	])
	.unwrap();
	let new = (vec![2u8; 20], vec![vec![2u8, 1], vec![2u8, 2]]);

	// T2 is the last transaction. Its effect is visible as soon as commit returns.
	let after_commit = read_tree(&db, &key);
	eprintln!("after commit of T2:      {:?}", after_commit);
	assert_eq!(after_commit, Some(new.clone()), "T2 is committed, a reader has to see its tree");

	// No commit happens from here on: whatever the background stages do, the answer must stay.
	db.process_commits().unwrap();
	let after_log = read_tree(&db, &key);
	eprintln!("after the log worker ran: {:?}", after_log);
	drain(&db);
	let settled = read_tree(&db, &key);
	eprintln!("after the pipeline drained: {:?}", settled);
	drop(db);
	let db = Db::open(&options(tmp.path())).unwrap();
	let reopened = read_tree(&db, &key);
	eprintln!("after a restart:           {:?}", reopened);

	assert_eq!(
		after_log,
		Some(new.clone()),
		"the reader saw the tree of T2, then lost it although nothing was committed after T2"
	);
	assert_eq!(settled, Some(new.clone()));
	assert_eq!(reopened, Some(new));
}

// The same history with the real background workers: nothing is stepped by hand, the reader just
// keeps reading after the commit returned.
#[test]
fn replaced_tree_disappears_under_the_background_workers() {
	let tmp = tempfile::tempdir().unwrap();
	let mut opts = options(tmp.path());
	opts.with_background_thread = true;
	let db = Db::open_or_create(&opts).unwrap();
	let key = vec![9u8; 32];
	db.commit_changes(vec![(0, Operation::InsertTree(key.clone(), tree(1)))]).unwrap();
	db.commit_changes(vec![
		(0, Operation::DereferenceTree(key.clone())),
		(0, Operation::InsertTree(key.clone(), tree(2))),
	])
	.unwrap();
	let new = (vec![2u8; 20], vec![vec![2u8, 1], vec![2u8, 2]]);
	let start = std::time::Instant::now();
	let mut reads = 0u64;
	while start.elapsed() < std::time::Duration::from_secs(2) {
		// Direct node access, no TreeReader lock: nothing here can make the log worker postpone
		// the removal.
		let got = db.get_root(0, &key).unwrap().map(|(data, children)| {
			let children =
				children.iter().map(|a| db.get_node(0, *a).unwrap().expect("child node").0).collect();
			(data, children)
		});
		reads += 1;
		assert_eq!(
			got,
			Some(new.clone()),
			"read {} ({:?} after the last commit returned) does not show the last committed tree",
			reads,
			start.elapsed()
		);
	}
}
