# Imposes the schedule for tests/hunt_H3C20_3.rs. Usage (from the crate root):
#
#   cargo test --offline --features instrumentation --test hunt_H3C20_3 --no-run
#   gdb -batch -x tests/hunt_H3C20_3.gdb --args \
#       $(ls -t target/debug/deps/hunt_H3C20_3-* | grep -v '\.d$' | head -1) --test-threads=1 --nocapture
#
# 1. The log worker of the destination is stopped in `log_worker` after `process_commits()` has
#    returned false (queue empty), before it evaluates the loop condition again.
# 2. Only the thread that runs `migrate` goes on: it finishes the walk, queues the last commit,
#    and `Db::close` sets the shutdown flag. It is stopped before it joins the log worker.
# 3. Everything is released: the log worker sees `shutdown && !more_commits` and leaves, the
#    queued commit is left to `kill_logs` on the closing thread.
set pagination off
set confirm off
set breakpoint pending on
set print thread-events off
# The test fills the source through a handle of its own first: arm the window breakpoint only
# once `migrate` runs (the source handle inside `migrate` never commits, its log worker stays
# parked, so the only log worker that gets here is the one of the destination).
break parity_db::migration::migrate
run
delete
break db.rs:1715 if !more_commits
continue
python
import gdb
worker = gdb.selected_thread()
print("== log worker stopped in the window: thread %d (%s)" % (worker.num, worker.name))
gdb.execute("delete")
main = None
for t in gdb.selected_inferior().threads():
    t.switch()
    f = gdb.newest_frame()
    while f is not None:
        if f.name() is not None and "migration::migrate" in f.name():
            main = t
            break
        f = f.older()
    if main is not None:
        break
assert main is not None, "thread running migrate not found"
print("== migrating thread: %d (%s)" % (main.num, main.name))
main.switch()
gdb.execute("set scheduler-locking on")
# drop_inner: `self.inner.shutdown()` has returned, the log thread is about to be joined.
gdb.execute("break db.rs:1921")
gdb.execute("continue")
print("== shutdown flag set, last commit queued; releasing all threads")
gdb.execute("delete")
gdb.execute("set scheduler-locking off")
gdb.execute("continue")
end
