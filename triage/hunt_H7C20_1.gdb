# Imposed schedule for tests/hunt_h7C20_1.rs (see the header of the test for the command line).
#
# 1. run until the test tells which column it chose (marker function `hunt_target`);
# 2. run until the thread that executes `migrate` opens `<src>/index_XX_17` read-only, i.e. until
#    `copy_column` starts to copy the new index table of that column;
# 3. run until that thread asks for the next directory entry (`readdir64`): the copy is done;
# 4. hold that thread there (non-stop mode: only the thread that hit the breakpoint is stopped, all
#    other threads keep running) until the source's commit worker has enacted the reindex records
#    and removed `<src>/index_XX_16`;
# 5. let everything run to the end.
set pagination off
set non-stop on
set confirm off
set breakpoint pending on
set print thread-events off
handle SIGPIPE nostop noprint pass

python
import gdb, os, time

def out(msg):
    gdb.write("[gdb] %s\n" % msg)
    gdb.flush()

# Registers are read as C values; the marker is stopped at its first instruction.
gdb.execute("set language c")
gdb.execute("break *hunt_target")
gdb.execute("run")
# Non-stop mode: the selected thread is not necessarily the one that stopped.
def select_stopped():
    for t in gdb.selected_inferior().threads():
        if t.is_valid() and t.is_stopped():
            t.switch()
            return t
    raise RuntimeError("no stopped thread")
select_stopped()
col = int(gdb.parse_and_eval("$rdi")) & 0xffffffff
src = gdb.parse_and_eval("(char*)$rsi").string()
gdb.execute("delete")
if col == 0xffffffff:
    out("the test found no column that fits the directory order here: nothing to impose")
    gdb.execute("continue")
else:
    new_index = "%s/index_%02d_17" % (src, col)
    old_index = "%s/index_%02d_16" % (src, col)
    out("chosen column %d, waiting for the copy of %s" % (col, new_index))

    class CopyStarts(gdb.Breakpoint):
        def stop(self):
            try:
                path = gdb.parse_and_eval("(char*)$rdi").string()
                flags = int(gdb.parse_and_eval("$rsi"))
            except Exception:
                return False
            # O_RDONLY: the source side of std::fs::copy (opening the database maps it read-write)
            return path == new_index and (flags & 3) == 0

    bp = CopyStarts("open64")
    gdb.execute("continue")
    bp.delete()
    migrate_thread = select_stopped()
    out("thread %d copies %s" % (migrate_thread.num, new_index))
    rd = gdb.Breakpoint("readdir64")
    rd.thread = migrate_thread.num
    gdb.execute("continue")
    select_stopped()
    rd.delete()
    out("copied; %s still exists: %s; holding the thread" % (old_index, os.path.exists(old_index)))
    # (a repaired implementation keeps the old table until the copy is done: give up after 3 minutes)
    waited = 0
    while os.path.exists(old_index) and waited < 180:
        time.sleep(1)
        waited += 1
    out("after %d s: %s exists: %s; releasing the thread" % (waited, old_index, os.path.exists(old_index)))
    gdb.execute("continue")
end
