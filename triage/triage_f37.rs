// C07 finding 1: value iteration of a ref-counted hash column is not exact once all accepted
// commits have been written to the log. It reports a state that never existed: removals and
// counter changes of the newest logged commit are visible, values inserted by the very same
// commit are not (until the record is enacted).
//
// Run: cargo test --offline --features instrumentation --test hunt_HC07_1
#![cfg(feature = "instrumentation")]

use parity_db::{ColumnOptions, Db, Operation, Options};

fn key(i: u8) -> Vec<u8> {
	vec![i; 32]
}

// The value is a function of the key (preimage contract). Different keys use different size tiers.
fn value(k: &[u8]) -> Vec<u8> {
	vec![k[0]; 32 + 100 * k[0] as usize]
}

fn options(path: &std::path::Path) -> Options {
	let mut o = Options::with_columns(path, 1);
	o.columns[0] = ColumnOptions { ref_counted: true, preimage: true, ..Default::default() };
	o.with_background_thread = false;
	o.always_flush = true;
	o
}

fn iterate(db: &Db) -> Vec<(Vec<u8>, u32)> {
	let mut r = Vec::new();
	db.iter_column_while(0, |s| {
		r.push((s.value, s.rc));
		true
	})
	.unwrap();
	r.sort();
	r
}

// (first byte, length, count) of each reported value, for readable failure messages.
fn summary(v: &[(Vec<u8>, u32)]) -> Vec<(u8, usize, u32)> {
	v.iter().map(|(v, rc)| (v[0], v.len(), *rc)).collect()
}

fn assert_iteration(db: &Db, expected: Vec<(Vec<u8>, u32)>, what: &str) {
	let got = iterate(db);
	assert!(
		got == expected,
		"{what}: iteration reported (first byte, len, count) {:?}, expected {:?}",
		summary(&got),
		summary(&expected)
	);
}

fn settle(db: &Db) {
	for _ in 0..4 {
		db.process_commits().unwrap();
		db.flush_logs().unwrap();
		db.enact_logs().unwrap();
		db.clean_logs().unwrap();
	}
}

#[test]
fn iteration_is_exact_once_commits_are_logged() {
	let tmp = tempfile::tempdir().unwrap();
	let opts = options(tmp.path());
	let db = Db::open_or_create(&opts).unwrap();
	let (k1, k2, k3) = (key(1), key(2), key(3));

	// k1 and k2 are set and fully written to the tables.
	db.commit_changes(vec![
		(0, Operation::Set(k1.clone(), value(&k1))),
		(0, Operation::Set(k2.clone(), value(&k2))),
	])
	.unwrap();
	settle(&db);
	assert_iteration(&db, vec![(value(&k1), 1), (value(&k2), 1)], "after the first commit is enacted");

	// One commit: k1 is dropped to zero, k2 is referenced, k3 is new.
	db.commit_changes(vec![
		(0, Operation::Dereference(k1.clone())),
		(0, Operation::Reference(k2.clone())),
		(0, Operation::Set(k3.clone(), value(&k3))),
	])
	.unwrap();
	// The commit is written to the log (and the log file is flushed). Nothing is queued anymore.
	db.process_commits().unwrap();
	db.flush_logs().unwrap();

	// Point reads observe the commit as a whole.
	assert_eq!(db.get(0, &k1).unwrap(), None);
	assert_eq!(db.get(0, &k2).unwrap(), Some(value(&k2)));
	assert_eq!(db.get(0, &k3).unwrap(), Some(value(&k3)));

	// Counts are k1: 0, k2: 2, k3: 1. Iteration has to report exactly the live values.
	// (The state before the commit would have been [(v1, 1), (v2, 1)].)
	assert_iteration(
		&db,
		vec![(value(&k2), 2), (value(&k3), 1)],
		"neither the state before nor the state after the logged commit",
	);
}

#[test]
fn iteration_sees_first_logged_value() {
	let tmp = tempfile::tempdir().unwrap();
	let opts = options(tmp.path());
	let db = Db::open_or_create(&opts).unwrap();
	let k1 = key(1);
	db.commit_changes(vec![(0, Operation::Set(k1.clone(), value(&k1)))]).unwrap();
	db.process_commits().unwrap();
	db.flush_logs().unwrap();
	assert_eq!(db.get(0, &k1).unwrap(), Some(value(&k1)));
	assert_iteration(&db, vec![(value(&k1), 1)], "first value written to the log");
}
