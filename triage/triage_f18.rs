// HC02 finding 1: after an index table has been dropped at the end of a reindex, the
// write-ahead log still holds older records that name the dropped table. On reopen the
// replay treats the first such record as corruption and throws the WHOLE log away, including
// a later record that was only partially applied to the tables when the process stopped.
// The recovered database then exposes a torn transaction.
//
// Run: cargo test --offline --features instrumentation --test hunt_HC02_1 -- --nocapture
#![cfg(feature = "instrumentation")]

use parity_db::{set_number_of_allowed_io_operations, Db, Options};
use std::path::Path;

const V1: [u8; 20] = [0x11; 20];
const V2: [u8; 20] = [0x22; 20];

fn options(path: &Path) -> Options {
	let mut o = Options::with_columns(path, 1);
	o.columns[0].uniform = true; // key bytes are used as the hash: lets us pick index chunks
	o.salt = Some([0u8; 32]);
	o.with_background_thread = false; // pipeline stages are driven by hand
	o.always_flush = true;
	o
}

// Key in index chunk (hi, lo) of the 16 bit index.
fn key(hi: u8, lo: u8, n: u8) -> Vec<u8> {
	let mut k = [0u8; 32];
	k[0] = hi;
	k[1] = lo;
	k[2] = n << 1;
	k[10] = n;
	k[11] = hi;
	k.to_vec()
}

fn key_a() -> Vec<u8> {
	key(0x80, 0x00, 1)
}
fn key_b() -> Vec<u8> {
	key(0x90, 0x00, 2)
}

fn copy_dir(from: &Path, to: &Path) {
	std::fs::create_dir_all(to).unwrap();
	for e in std::fs::read_dir(from).unwrap() {
		let e = e.unwrap();
		if e.file_name() == "lock" {
			continue
		}
		std::fs::copy(e.path(), to.join(e.file_name())).unwrap();
	}
}

#[derive(Debug, PartialEq, Eq, Clone, Copy)]
enum Recovered {
	BeforeT2,
	AfterT2,
}

// Runs the history, stops the process `allowed` I/O operations into the enactment of the last
// transaction, takes the directory image at that instant, reopens it and classifies the state.
// Returns None once `allowed` is large enough for the enactment to complete.
fn crash_and_recover(fill: u8, allowed: usize) -> Option<std::result::Result<Recovered, String>> {
	let live = tempfile::tempdir().unwrap();
	let image = tempfile::tempdir().unwrap();
	let opts = options(live.path());
	{
		let db = Db::open_or_create(&opts).unwrap();
		// T0: two keys far away from each other.
		db.commit(vec![(0u8, key_a(), Some(V1.to_vec())), (0u8, key_b(), Some(V1.to_vec()))])
			.unwrap();
		// T1: `fill` keys into one chunk of the 16 bit index (a chunk holds 64).
		db.commit((0..fill).map(|i| (0u8, key(0, 0, i), Some(vec![i; 8])))).unwrap();
		db.process_commits().unwrap();
		db.process_commits().unwrap();
		db.flush_logs().unwrap();
		db.enact_logs().unwrap();
		// Reindex (if T1 overflowed the chunk): moves everything to index 17, drops index 16.
		db.process_reindex().unwrap();
		db.flush_logs().unwrap();
		db.enact_logs().unwrap();
		db.process_reindex().unwrap();
		let grown = live.path().join("index_00_17").exists();
		assert_eq!(grown, fill > 64);
		assert_eq!(live.path().join("index_00_16").exists(), !grown);

		// T2: replaces both values in place (same size tier, index untouched).
		db.commit(vec![(0u8, key_a(), Some(V2.to_vec())), (0u8, key_b(), Some(V2.to_vec()))])
			.unwrap();
		db.process_commits().unwrap();
		db.flush_logs().unwrap(); // record is complete and synced in the WAL
		assert_eq!(db.get(0, &key_a()).unwrap(), Some(V2.to_vec()));

		// The process stops somewhere inside the enactment of T2. The cleanup stage did not
		// run yet, so every log file is still there.
		set_number_of_allowed_io_operations(allowed);
		let r = db.enact_logs();
		set_number_of_allowed_io_operations(usize::MAX);
		if r.is_ok() {
			return None
		}
		copy_dir(live.path(), image.path()); // the directory image at the instant of the crash
	}

	let db = match Db::open(&options(image.path())) {
		Ok(db) => db,
		Err(e) => return Some(Err(format!("reopen failed: {e:?}"))),
	};
	let a = db.get(0, &key_a()).unwrap();
	let b = db.get(0, &key_b()).unwrap();
	for i in 0..fill {
		assert_eq!(db.get(0, &key(0, 0, i)).unwrap(), Some(vec![i; 8]), "T1 key {i}");
	}
	let (v1, v2) = (Some(V1.to_vec()), Some(V2.to_vec()));
	Some(if a == v1 && b == v1 {
		Ok(Recovered::BeforeT2)
	} else if a == v2 && b == v2 {
		Ok(Recovered::AfterT2)
	} else {
		Err(format!("TORN: a={:?} b={:?}", a.map(|v| v[0]), b.map(|v| v[0])))
	})
}

fn sweep(fill: u8) -> Vec<(usize, std::result::Result<Recovered, String>)> {
	let _ = env_logger::try_init();
	let mut out = Vec::new();
	for allowed in 0..500 {
		match crash_and_recover(fill, allowed) {
			Some(r) => out.push((allowed, r)),
			None => return out,
		}
	}
	panic!("enactment never completed");
}

// Control: same history, the chunk does not overflow, no index is dropped. Passes.
#[test]
fn control_no_index_drop_every_crash_point_recovers_whole_transactions() {
	let results = sweep(60);
	assert!(!results.is_empty());
	for (n, r) in &results {
		println!("control: crash after {n} io ops -> {r:?}");
	}
	assert!(results.iter().all(|(_, r)| r.is_ok()));
}

// Fails on the unmodified code.
#[test]
fn crash_while_enacting_after_index_drop_recovers_whole_transactions() {
	let results = sweep(65);
	assert!(!results.is_empty());
	for (n, r) in &results {
		println!("after index drop: crash after {n} io ops -> {r:?}");
	}
	let torn: Vec<_> = results.iter().filter(|(_, r)| r.is_err()).collect();
	assert!(torn.is_empty(), "recovered state is not a prefix of the commits: {torn:?}");
}
