#![cfg(feature = "instrumentation")]
// Two accepted commits, each [DereferenceTree(A), InsertTree(new)], made while a TreeReader lock
// on A is held, defer each other forever: each one carries `used_trees = {A}` (its own
// InsertTree saw A in the to-dereference set with an active reader), and the deferral check
// "does a later commit in the queue use this tree" is satisfied by the other one, which is
// re-queued behind it. The commit stage spins, neither commit is ever written, A is never
// released, and closing the database loops forever in `kill_logs`.
//
// Run: cargo test --offline --features instrumentation --test hunt_HC10_3

use parity_db::{ColumnOptions, Db, NewNode, NodeRef, Operation, Options};

fn options(path: &std::path::Path) -> Options {
	let mut o = Options::with_columns(path, 1);
	o.columns[0] = ColumnOptions {
		multitree: true,
		allow_direct_node_access: true,
		ref_counted: true,
		preimage: true,
		..Default::default()
	};
	o.with_background_thread = false;
	o.always_flush = true;
	o
}

fn leaf(data: &[u8]) -> NodeRef {
	NodeRef::New(NewNode { data: data.to_vec(), children: vec![] })
}

fn tree(tag: &[u8]) -> NewNode {
	NewNode { data: tag.to_vec(), children: vec![leaf(b"x"), leaf(b"y")] }
}

fn step_all(db: &Db, n: usize) {
	for _ in 0..n {
		db.process_commits().unwrap();
	}
	db.flush_logs().unwrap();
	db.enact_logs().unwrap();
	db.clean_logs().unwrap();
}

fn scenario(hold_reader: bool) {
	let dir = tempfile::tempdir().unwrap();
	let db = Db::open_or_create(&options(dir.path())).unwrap();
	let a = vec![1u8; 32];
	let n1 = vec![2u8; 32];
	let n2 = vec![3u8; 32];

	// Tree A with two references.
	db.commit_changes(vec![(0, Operation::InsertTree(a.clone(), tree(b"A")))]).unwrap();
	db.commit_changes(vec![(0, Operation::ReferenceTree(a.clone()))]).unwrap();
	step_all(&db, 4);
	assert_eq!(db.get_num_column_value_entries(0).unwrap(), 3);

	// A reader works on A while two commits each drop one reference of A and add a tree.
	let reader = db.get_tree(0, &a).unwrap().unwrap();
	let guard = if hold_reader { Some(reader.read()) } else { None };
	if let Some(guard) = &guard {
		assert!(guard.get_root().unwrap().is_some());
	}
	db.commit_changes(vec![
		(0, Operation::DereferenceTree(a.clone())),
		(0, Operation::InsertTree(n1.clone(), tree(b"N1"))),
	])
	.unwrap();
	db.commit_changes(vec![
		(0, Operation::DereferenceTree(a.clone())),
		(0, Operation::InsertTree(n2.clone(), tree(b"N2"))),
	])
	.unwrap();
	drop(guard);
	drop(reader);

	// No reader any more. Give the commit stage plenty of turns.
	step_all(&db, 10_000);

	// Expected: A (root + 2 leaves) gone, N1 and N2 stored: 6 entries.
	let entries = db.get_num_column_value_entries(0).unwrap();
	let a_gone = db.get_root(0, &a).unwrap().is_none();
	// A commit that is processed after these two.
	db.commit_changes(vec![(0, Operation::DereferenceTree(n1.clone()))]).unwrap();
	step_all(&db, 10_000);
	let n1_gone = db.get_root(0, &n1).unwrap().is_none();
	let entries_after = db.get_num_column_value_entries(0).unwrap();

	if !(a_gone && n1_gone && entries == 6 && entries_after == 3) {
		// Dropping the handle would spin forever in kill_logs (process_commits keeps returning
		// "more work"): leak it so that the test reports instead of hanging.
		std::mem::forget(db);
		panic!(
			"commit stage is stuck: a_gone={a_gone} n1_gone={n1_gone} entries={entries} (expected 6) entries_after={entries_after} (expected 3)"
		);
	}
}

#[test]
fn mutually_deferred_commits_never_complete() {
	scenario(true);
}

// Control: the same history without a reader lock at commit time completes.
#[test]
fn control_no_reader() {
	scenario(false);
}

// The same history against the real background pipeline: the log worker spins on the two
// commits, so closing the database (which joins the worker) never returns.
#[test]
fn close_hangs_with_background_threads() {
	let (tx, rx) = std::sync::mpsc::channel();
	std::thread::spawn(move || {
		let dir = tempfile::tempdir().unwrap();
		let mut o = options(dir.path());
		o.with_background_thread = true;
		let db = Db::open_or_create(&o).unwrap();
		let a = vec![1u8; 32];
		db.commit_changes(vec![(0, Operation::InsertTree(a.clone(), tree(b"A")))]).unwrap();
		db.commit_changes(vec![(0, Operation::ReferenceTree(a.clone()))]).unwrap();
		let reader = db.get_tree(0, &a).unwrap().unwrap();
		let guard = reader.read();
		db.commit_changes(vec![
			(0, Operation::DereferenceTree(a.clone())),
			(0, Operation::InsertTree(vec![2u8; 32], tree(b"N1"))),
		])
		.unwrap();
		db.commit_changes(vec![
			(0, Operation::DereferenceTree(a.clone())),
			(0, Operation::InsertTree(vec![3u8; 32], tree(b"N2"))),
		])
		.unwrap();
		drop(guard);
		drop(reader);
		drop(db);
		tx.send(()).unwrap();
	});
	assert!(
		rx.recv_timeout(std::time::Duration::from_secs(30)).is_ok(),
		"Db::drop did not return within 30 s"
	);
}
