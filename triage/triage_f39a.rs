// C09 finding 2: replacing a key whose hash differs from another key's only in the last
// index-visible bit panics the commit planner after an index growth (x86_64 only).
//
// Run with:
//   cargo test --offline --features instrumentation --test hunt_HC09_2
//
// Ingredients:
//  * `write_plan_existing` (src/column.rs): when a value changes size tier and its entry was found
//    in an older index, a new entry is written to the current index and the old entry is left
//    behind, pointing at the freed slot. The next reindex batch copies that stale entry into the
//    current index.
//  * `IndexTable::find_entry_sse2` (src/index.rs) compares only the upper 32 bits of an entry, so
//    for 16 and 17 bit indexes it also returns entries whose partial key differs in the lowest
//    bit(s). Callers filter such candidates by comparing the key stored in the value slot.
//  * when the freed slot is reused by the "twin" key (same first 49 hash bits), the stale entry
//    passes that filter: `search_index` reports the stale entry's position as the position of the
//    twin's entry and `IndexTable::plan_insert_chunk` hits
//    `assert_eq!(entry.partial_key(..), new_entry.partial_key(..))`.
//
// In a running database the panic kills the log worker thread: nothing is ever written again and
// committers end up blocked on the full commit queue.
#![cfg(all(feature = "instrumentation", target_arch = "x86_64"))]

use parity_db::{Db, Options};

fn options(path: &std::path::Path) -> Options {
	let mut options = Options::with_columns(path, 1);
	options.columns[0].uniform = true;
	options.always_flush = true;
	options.with_background_thread = false;
	// Instrumentation: identity hash, the key bytes choose the index page.
	options.salt = Some(Default::default());
	options
}

// 64 keys of one i16 page; they split 32/32 over two pages of i17.
fn key(i: u8) -> Vec<u8> {
	let mut k = [0u8; 32];
	k[2] = i << 2;
	k[31] = i;
	k.to_vec()
}

fn stages(db: &Db) {
	db.process_commits().unwrap();
	db.flush_logs().unwrap();
	db.enact_logs().unwrap();
	db.clean_logs().unwrap();
}

#[test]
fn replacing_the_twin_of_a_key_that_changed_tier_during_growth() {
	let dir = tempfile::tempdir().unwrap();
	let db = Db::open_or_create(&options(dir.path())).unwrap();

	// (not key(0): an all-zero partial key takes the scalar lookup path)
	let k = key(1);
	// Twin: hash bit 49 differs (lowest bit of the partial key kept by a 17 bit index). The
	// difference is inside the key bytes kept by the value table too, the keys are distinct for
	// every component of the store.
	let mut twin = k.clone();
	twin[6] = 0x40;

	// Fill one page of i16, then grow 16 -> 17 with a 65th key.
	db.commit((0..64u8).map(|i| (0u8, key(i), Some(vec![i; 4])))).unwrap();
	stages(&db);
	let mut k65 = [0u8; 32];
	k65[2] = 1;
	k65[31] = 65;
	db.commit(vec![(0u8, k65.to_vec(), Some(vec![65u8; 4]))]).unwrap();
	stages(&db);
	assert!(dir.path().join("index_00_17").exists());

	// K changes size tier while its entry is still in i16 only.
	db.commit(vec![(0u8, k.clone(), Some(vec![7u8; 100]))]).unwrap();
	stages(&db);

	// Migrate i16 into i17 and drop it.
	db.process_reindex().unwrap();
	db.flush_logs().unwrap();
	db.enact_logs().unwrap();
	db.clean_logs().unwrap();
	assert!(!dir.path().join("index_00_16").exists(), "growth is complete");

	// The twin is inserted (takes the slot K left) and is then given a bigger value.
	db.commit(vec![(0u8, twin.clone(), Some(b"tw".to_vec()))]).unwrap();
	stages(&db);
	assert_eq!(db.get(0, &twin).unwrap(), Some(b"tw".to_vec()));
	assert_eq!(db.get(0, &k).unwrap(), Some(vec![7u8; 100]));

	db.commit(vec![(0u8, twin.clone(), Some(vec![9u8; 100]))]).unwrap();
	let planned = std::panic::catch_unwind(std::panic::AssertUnwindSafe(|| db.process_commits()));
	assert!(planned.is_ok(), "commit planner panicked while replacing the twin key");
	planned.unwrap().unwrap();
	db.flush_logs().unwrap();
	db.enact_logs().unwrap();

	assert_eq!(db.get(0, &twin).unwrap(), Some(vec![9u8; 100]));
	assert_eq!(db.get(0, &k).unwrap(), Some(vec![7u8; 100]));
}
