#![cfg(feature = "instrumentation")]
//! C13: a log file from an earlier generation is replayed over newer tables.
//!
//! Generation 1: r1 {k: old} is logged to log0 (a copy of the file is kept), enacted, the
//! database is closed cleanly (all logs removed). Generation 2 (record ids start at 1 again):
//! {k: new}, closed cleanly. The kept generation-1 file is put back (as `log0` or under any other
//! number). Nothing in it or in the tables tells the generations apart: the record is complete,
//! checksum-valid and numbered 1 = "last enacted + 1", so open applies it and `k` reads `old`.
//!
//! cargo test --offline --features instrumentation --test hunt_H2C13_3

use parity_db::{Db, Options};
use std::path::Path;

fn options(path: &Path) -> Options {
	let mut o = Options::with_columns(path, 1);
	o.with_background_thread = false;
	o.always_flush = true;
	o.salt = Some([0; 32]);
	o
}

fn logs(dir: &Path) -> Vec<String> {
	std::fs::read_dir(dir)
		.unwrap()
		.map(|e| e.unwrap().file_name().to_str().unwrap().to_string())
		.filter(|n| n.starts_with("log"))
		.collect()
}

fn run(stale_name: Option<&str>) -> Option<Vec<u8>> {
	let tmp = tempfile::tempdir().unwrap();
	let dir = tmp.path().join("db");
	let stale = tmp.path().join("stale_log");

	// Generation 1.
	{
		let db = Db::open_or_create(&options(&dir)).unwrap();
		db.commit(vec![(0u8, b"k".to_vec(), Some(b"old".to_vec()))]).unwrap();
		db.process_commits().unwrap();
		db.flush_logs().unwrap();
		std::fs::copy(dir.join("log0"), &stale).unwrap();
		db.enact_logs().unwrap();
		db.clean_logs().unwrap();
	}
	assert!(logs(&dir).is_empty(), "clean shutdown removes the logs");

	// Generation 2.
	{
		let db = Db::open(&options(&dir)).unwrap();
		assert_eq!(db.get(0, b"k").unwrap(), Some(b"old".to_vec()));
		db.commit(vec![(0u8, b"k".to_vec(), Some(b"new".to_vec()))]).unwrap();
		db.process_commits().unwrap();
		db.flush_logs().unwrap();
		db.enact_logs().unwrap();
		db.clean_logs().unwrap();
	}
	assert!(logs(&dir).is_empty(), "clean shutdown removes the logs");

	if let Some(name) = stale_name {
		std::fs::copy(&stale, dir.join(name)).unwrap();
	}
	let db = Db::open(&options(&dir)).unwrap();
	db.get(0, b"k").unwrap()
}

#[test]
fn control_no_stale_file() {
	assert_eq!(run(None), Some(b"new".to_vec()));
}

#[test]
fn stale_generation_file_same_name() {
	assert_eq!(
		run(Some("log0")),
		Some(b"new".to_vec()),
		"a log file of an earlier generation was applied over newer tables"
	);
}

#[test]
fn stale_generation_file_other_number() {
	assert_eq!(
		run(Some("log7")),
		Some(b"new".to_vec()),
		"a log file of an earlier generation was applied over newer tables"
	);
}
