#![cfg(feature = "instrumentation")]
// C14: a multitree node that is referenced by a live tree must stay allocated (node reference
// counts equal the number of referencing parents; a slot is in exactly one live chain or on the
// free list).
//
// History (multitree column, TreeReader protocol of admin/src/multitree_bench: the writer holds the
// read lock of the previous tree while it builds and commits a tree that shares nodes with it):
//
//   1. tree K1 = root -> [leafA, leafB] is committed and drained.
//   2. the pruner commits DereferenceTree(K1) (queued).
//   3. the log worker (here: the test thread calling `process_commits`) takes that commit out of the
//      queue, finds the reader of K1 unlocked and no queued commit that uses K1, so it decides not to
//      defer and forgets K1 in `to_dereference`.
//   4. BEFORE it reaches `tree.write()`, the writer thread gets the reader of K1, takes the read
//      lock, reads the root (still there), commits InsertTree(K2 = root -> [Existing(leafA), leafC])
//      and releases the lock. (K1 is no longer in `to_dereference`, so the commit is not marked as a
//      user of K1.)
//   5. the log worker goes on: removes root K1, frees leafA and leafB. Then InsertTree(K2) is
//      processed: it "increments" the counter of the freed slot.
//
// The schedule is imposed through the log facade: the library logs "Processing commit .." exactly
// between step 3 and the `tree.write()` of step 5; the test logger parks the log worker there
// until the writer thread has finished step 4 (or 3 seconds have passed, in case an implementation
// makes the writer wait for the log worker instead).
//
// Run: cargo test --offline --features instrumentation --test hunt_H2C14_1

use parity_db::{ColumnOptions, Db, NewNode, NodeRef, Operation, Options};
use std::{
	sync::{
		atomic::{AtomicBool, Ordering},
		Arc, Condvar, Mutex,
	},
	time::Duration,
};

struct Gate {
	armed: AtomicBool,
	// The hook fires only on the thread that plays the log worker of the racing test.
	thread: Mutex<Option<std::thread::ThreadId>>,
	// The log message (prefix) at which the log worker is parked.
	pattern: Mutex<&'static str>,
	// 0: idle, 1: log worker is parked in the window, 2: writer is done
	state: Mutex<u8>,
	cv: Condvar,
}

static GATE: Gate =
	Gate {
	armed: AtomicBool::new(false),
	thread: Mutex::new(None),
	pattern: Mutex::new(""),
	state: Mutex::new(0),
	cv: Condvar::new(),
};

struct HookLogger;

impl log::Log for HookLogger {
	fn enabled(&self, _metadata: &log::Metadata) -> bool {
		true
	}
	fn log(&self, record: &log::Record) {
		if record.target() != "parity-db" || !GATE.armed.load(Ordering::SeqCst) {
			return
		}
		if *GATE.thread.lock().unwrap() != Some(std::thread::current().id()) {
			return
		}
		let msg = format!("{}", record.args());
		let pattern: &'static str = *GATE.pattern.lock().unwrap();
		if msg.starts_with(pattern) {
			// One shot.
			GATE.armed.store(false, Ordering::SeqCst);
			let mut state = GATE.state.lock().unwrap();
			*state = 1;
			GATE.cv.notify_all();
			let deadline = Duration::from_secs(3);
			let (_state, _timeout) =
				GATE.cv.wait_timeout_while(state, deadline, |s| *s != 2).unwrap();
		}
	}
	fn flush(&self) {}
}

static LOGGER: HookLogger = HookLogger;

fn drain(db: &Db) {
	for _ in 0..8 {
		db.process_commits().unwrap();
		db.flush_logs().unwrap();
		db.enact_logs().unwrap();
		db.clean_logs().unwrap();
	}
}

fn leaf(data: &[u8]) -> NodeRef {
	NodeRef::New(NewNode { data: data.to_vec(), children: vec![] })
}

// The tests share the gate.
static SERIAL: Mutex<()> = Mutex::new(());

// Window 1: between the decision not to defer (reader unlocked, `to_dereference` forgotten) and
// `tree.write()`. The writer holds the read lock of K1 during all of its step 4; the log worker
// then waits for it in `tree.write()`.
#[test]
fn node_shared_with_a_tree_under_removal_stays_allocated() {
	let _serial = SERIAL.lock().unwrap_or_else(|e| e.into_inner());
	race("Processing commit")
}

// Window 2: after the log worker has released `tree.write()` and before the record that frees the
// nodes is published to the log overlay (`Log::end_record`). The removal is still private to the
// log worker, so the writer - which takes the read lock without any contention - is shown the root
// and the nodes of K1 as if nothing had happened. ("Flush: Activated" is logged by `end_record`
// before it writes the record.)
#[test]
fn node_shared_with_a_tree_just_removed_but_not_published_stays_allocated() {
	let _serial = SERIAL.lock().unwrap_or_else(|e| e.into_inner());
	race("Flush: Activated")
}

fn race(pattern: &'static str) {
	*GATE.state.lock().unwrap() = 0;
	*GATE.pattern.lock().unwrap() = pattern;
	let _ = log::set_logger(&LOGGER);
	log::set_max_level(log::LevelFilter::Debug);

	let tmp = tempfile::tempdir().unwrap();
	let mut options = Options::with_columns(tmp.path(), 1);
	options.columns[0] = ColumnOptions {
		multitree: true,
		allow_direct_node_access: true,
		..Default::default()
	};
	options.with_background_thread = false;
	let db = Arc::new(Db::open_or_create(&options).unwrap());

	let k1 = [1u8; 32].to_vec();
	let k2 = [2u8; 32].to_vec();
	let k3 = [3u8; 32].to_vec();

	// 1. first tree
	db.commit_changes([(
		0u8,
		Operation::InsertTree(
			k1.clone(),
			NewNode {
				data: b"root-1".to_vec(),
				children: vec![leaf(b"leaf-A"), leaf(b"leaf-B")],
			},
		),
	)])
	.unwrap();
	drain(&db);
	assert_eq!(db.get_num_column_value_entries(0).unwrap(), 3);

	// The next record starts a new log file ("Flush: Activated .." is logged then).
	db.flush_logs().unwrap();
	// 2. the pruner removes it
	db.commit_changes([(0u8, Operation::DereferenceTree(k1.clone()))]).unwrap();

	// 4. the writer, to be run inside the window
	let writer = {
		let db = db.clone();
		let k1 = k1.clone();
		let k2 = k2.clone();
		std::thread::spawn(move || -> Option<u64> {
			{
				let mut state = GATE.state.lock().unwrap();
				while *state != 1 {
					state = GATE.cv.wait(state).unwrap();
				}
			}
			let result = (|| {
				let reader = db.get_tree(0, &k1).unwrap()?;
				let guard = reader.read();
				let (_data, children) = guard.get_root().unwrap()?;
				let shared = children[0];
				// The node is there, the lock is held: the protocol allows to share it.
				let (data, _) = guard.get_node(shared).unwrap()?;
				assert_eq!(data, b"leaf-A".to_vec());
				db.commit_changes([(
					0u8,
					Operation::InsertTree(
						k2.clone(),
						NewNode {
							data: b"root-2".to_vec(),
							children: vec![NodeRef::Existing(shared), leaf(b"leaf-C")],
						},
					),
				)])
				.ok()?;
				drop(guard);
				Some(shared)
			})();
			let mut state = GATE.state.lock().unwrap();
			*state = 2;
			GATE.cv.notify_all();
			result
		})
	};

	// 3. + 5. the log worker
	*GATE.thread.lock().unwrap() = Some(std::thread::current().id());
	GATE.armed.store(true, Ordering::SeqCst);
	db.process_commits().unwrap();
	let shared = writer.join().unwrap();
	drain(&db);

	let Some(shared) = shared else {
		// The library did not let the writer share the node (tree already gone for it, commit
		// refused): nothing to check.
		return
	};

	// K1 is gone, K2 = root-2 -> [leaf-A (shared), leaf-C] is live.
	assert!(db.get_tree(0, &k1).unwrap().is_none());
	let read_k2 = |db: &Db| -> Vec<Option<Vec<u8>>> {
		let reader = db.get_tree(0, &k2).unwrap().expect("tree K2 was committed");
		let guard = reader.read();
		let (data, children) = guard.get_root().unwrap().expect("root of K2");
		assert_eq!(data, b"root-2".to_vec());
		assert_eq!(children.len(), 2);
		assert_eq!(children[0], shared);
		children.iter().map(|c| guard.get_node(*c).unwrap().map(|(d, _)| d)).collect()
	};
	let nodes = read_k2(&db);
	let used = db.get_num_column_value_entries(0).unwrap();

	// Another tree of three nodes: it must not be given a slot that K2 uses.
	db.commit_changes([(
		0u8,
		Operation::InsertTree(
			k3.clone(),
			NewNode { data: b"root-3".to_vec(), children: vec![leaf(b"leaf-D"), leaf(b"leaf-E")] },
		),
	)])
	.unwrap();
	drain(&db);
	let nodes_after = read_k2(&db);

	assert_eq!(
		(nodes, used, nodes_after),
		(
			vec![Some(b"leaf-A".to_vec()), Some(b"leaf-C".to_vec())],
			3,
			vec![Some(b"leaf-A".to_vec()), Some(b"leaf-C".to_vec())],
		),
		"children of K2 / used slots (root-2, leaf-A, leaf-C) / children of K2 after one more tree was inserted",
	);
}

// Control: the same history, but the writer finishes step 4 BEFORE the log worker takes the
// DereferenceTree commit out of the queue. Here the deferral mechanism works (the InsertTree commit
// is marked as a user of K1, the removal is re-queued behind it) and the shared node survives.
#[test]
fn control_writer_before_the_log_worker() {
	let tmp = tempfile::tempdir().unwrap();
	let mut options = Options::with_columns(tmp.path(), 1);
	options.columns[0] = ColumnOptions {
		multitree: true,
		allow_direct_node_access: true,
		..Default::default()
	};
	options.with_background_thread = false;
	let db = Db::open_or_create(&options).unwrap();
	let k1 = [1u8; 32].to_vec();
	let k2 = [2u8; 32].to_vec();
	db.commit_changes([(
		0u8,
		Operation::InsertTree(
			k1.clone(),
			NewNode {
				data: b"root-1".to_vec(),
				children: vec![leaf(b"leaf-A"), leaf(b"leaf-B")],
			},
		),
	)])
	.unwrap();
	drain(&db);
	db.commit_changes([(0u8, Operation::DereferenceTree(k1.clone()))]).unwrap();
	let shared = {
		let reader = db.get_tree(0, &k1).unwrap().unwrap();
		let guard = reader.read();
		let (_data, children) = guard.get_root().unwrap().unwrap();
		db.commit_changes([(
			0u8,
			Operation::InsertTree(
				k2.clone(),
				NewNode {
					data: b"root-2".to_vec(),
					children: vec![NodeRef::Existing(children[0]), leaf(b"leaf-C")],
				},
			),
		)])
		.unwrap();
		children[0]
	};
	drain(&db);
	assert!(db.get_tree(0, &k1).unwrap().is_none());
	assert_eq!(db.get_node(0, shared).unwrap().map(|(d, _)| d), Some(b"leaf-A".to_vec()));
	assert_eq!(db.get_num_column_value_entries(0).unwrap(), 3);
}
