// C11, second round, finding 1.
//
// A writer holds the read lock of tree A from before the pruner's `DereferenceTree(A)` until
// after its own `InsertTree(B)` (B re-uses A's nodes) has returned. C11 promises that B stays
// valid. The mark that keeps the removal of A behind B (`used_trees`) is computed in
// `DbInner::commit_changes` while the InsertTree operation is converted, but the commit is put
// on the queue only later, in `commit_raw`. A pruner commit that runs in between is queued
// ahead of B and B carries no mark, so once the writer unlocks, A's nodes are freed and B's
// reference increments hit freed slots.
//
// The window is opened without touching src/: `commit_changes` takes an `IntoIterator`, which
// it drains lazily; the writer's iterator lets the pruner thread run when it is asked for the
// item after the InsertTree (this is nothing but a preemption of the writer at that point).
// The wait has a timeout, so an implementation that keeps the pruner out during the window
// just runs through.
//
// cargo test --offline --features instrumentation --test hunt_H2C11_1

use parity_db::{ColumnOptions, Db, NewNode, NodeRef, Operation, Options};
use std::{
	sync::mpsc::{channel, RecvTimeoutError},
	time::Duration,
};

const KEY_A: [u8; 32] = [0xA1; 32];
const KEY_B: [u8; 32] = [0xB2; 32];

fn options(path: &std::path::Path) -> Options {
	let mut options = Options::with_columns(path, 1);
	options.columns[0] = ColumnOptions {
		multitree: true,
		allow_direct_node_access: true,
		..Default::default()
	};
	options.with_background_thread = false;
	options.always_flush = true;
	options
}

fn drain(db: &Db) {
	for _ in 0..8 {
		db.process_commits().unwrap();
	}
	db.flush_logs().unwrap();
	db.enact_logs().unwrap();
	db.clean_logs().unwrap();
}

type Node = Option<(Vec<u8>, Vec<u64>)>;

#[derive(Debug, PartialEq, Eq)]
struct Outcome {
	root_a: Node,
	root_b: Option<Vec<u8>>,
	children_of_b: Vec<Option<Vec<u8>>>,
	entries: u64,
}

fn observe(db: &Db, children: &[u64]) -> Outcome {
	let root_a = db.get_root(0, &KEY_A).unwrap();
	let (root_b, children_of_b) = match db.get_tree(0, &KEY_B).unwrap() {
		Some(tree) => {
			let guard = tree.read();
			let root = guard.get_root().unwrap();
			assert_eq!(root.as_ref().map(|r| r.1.clone()), Some(children.to_vec()));
			(
				root.map(|r| r.0),
				children
					.iter()
					.map(|c| guard.get_node(*c).unwrap().map(|n| n.0))
					.collect(),
			)
		},
		None => (None, Vec::new()),
	};
	Outcome {
		root_a,
		root_b,
		children_of_b,
		entries: db.get_num_column_value_entries(0).unwrap(),
	}
}

// Lock held by the writer:   |-------------------------------------------|
// pruner:                          commit(DereferenceTree(A)) returns
// writer:                     commit(InsertTree(B)) starts ........ returns
//
// `preempt_writer == false`:  the pruner's commit runs right before the writer's commit call.
// `preempt_writer == true`:   the pruner's commit runs while the writer's commit call is between
//                             converting the InsertTree and queueing the commit.
fn history(preempt_writer: bool) -> (Outcome, Outcome) {
	let dir = tempfile::tempdir().unwrap();
	let options = options(dir.path());
	let db = Db::open_or_create(&options).unwrap();

	db.commit_changes(vec![(
		0u8,
		Operation::InsertTree(
			KEY_A.to_vec(),
			NewNode {
				data: vec![1; 16],
				children: vec![
					NodeRef::New(NewNode { data: vec![1, 1], children: vec![] }),
					NodeRef::New(NewNode { data: vec![1, 2], children: vec![] }),
				],
			},
		),
	)])
	.unwrap();
	drain(&db);

	let children = std::thread::scope(|scope| {
		let (go, wait_go) = channel::<()>();
		let (done, wait_done) = channel::<()>();
		let db = &db;
		scope.spawn(move || {
			if wait_go.recv().is_ok() {
				db.commit_changes(vec![(0u8, Operation::DereferenceTree(KEY_A.to_vec()))])
					.unwrap();
				let _ = done.send(());
			}
		});
		let run_pruner = move || {
			go.send(()).unwrap();
			match wait_done.recv_timeout(Duration::from_secs(3)) {
				Ok(()) => (),
				// A library that keeps the pruner out while the writer is committing.
				Err(RecvTimeoutError::Timeout) => (),
				Err(e) => panic!("{e:?}"),
			}
		};

		// The writer.
		let tree = db.get_tree(0, &KEY_A).unwrap().unwrap();
		let guard = tree.read();
		let (_, children) = guard.get_root().unwrap().unwrap();
		assert_eq!(children.len(), 2);
		let insert_b = (
			0u8,
			Operation::InsertTree(
				KEY_B.to_vec(),
				NewNode {
					data: vec![2; 16],
					children: children.iter().map(|c| NodeRef::Existing(*c)).collect(),
				},
			),
		);
		if preempt_writer {
			let mut run_pruner = Some(run_pruner);
			let mut insert_b = Some(insert_b);
			db.commit_changes(std::iter::from_fn(move || {
				if let Some(op) = insert_b.take() {
					return Some(op)
				}
				if let Some(run_pruner) = run_pruner.take() {
					run_pruner();
				}
				None
			}))
			.unwrap();
		} else {
			run_pruner();
			db.commit_changes(vec![insert_b]).unwrap();
		}
		// Still locked: tree A is untouched.
		assert_eq!(guard.get_node(children[0]).unwrap().map(|n| n.0), Some(vec![1, 1]));
		assert_eq!(guard.get_node(children[1]).unwrap().map(|n| n.0), Some(vec![1, 2]));
		drop(guard);
		children
	});

	for _ in 0..8 {
		db.process_commits().unwrap();
	}
	let in_memory = observe(&db, &children);
	drain(&db);
	drop(db);
	let db = Db::open(&options).unwrap();
	let reopened = observe(&db, &children);
	(in_memory, reopened)
}

fn expected() -> Outcome {
	Outcome {
		// The removal of A was completed once the lock was released ..
		root_a: None,
		// .. and B, inserted while A was locked, is intact and owns the two nodes.
		root_b: Some(vec![2; 16]),
		children_of_b: vec![Some(vec![1, 1]), Some(vec![1, 2])],
		entries: 3,
	}
}

#[test]
fn control_pruner_commits_before_the_writer_calls_commit() {
	let (in_memory, reopened) = history(false);
	assert_eq!(in_memory, expected());
	assert_eq!(reopened, expected());
}

#[test]
fn pruner_commits_while_the_writer_is_inside_commit() {
	let (in_memory, reopened) = history(true);
	assert_eq!(in_memory, expected());
	assert_eq!(reopened, expected());
}
