// Same violation as hunt_H2C12_1, with the real worker threads and a real `write(2)` failure
// instead of the stepping API and the instrumented fault counter. Needs a schedule: run it under
// gdb with hunt_H2C12_2.gdb (see there). Without gdb the flush worker normally takes the log file
// between the two records and the test passes.
//
//   cargo test --offline --features instrumentation --test hunt_H2C12_2 --no-run
//   gdb -batch -x tests/hunt_H2C12_2.gdb --args target/debug/deps/hunt_H2C12_2-<hash> \
//       --test-threads=1 --nocapture
//
// History: T0 = {K1=old, K2=old} is fully processed. T0b = {K3} and T1 = {K1=new, K2=new} (values of 6000 bytes, replaced in place)
// are committed one after the other. The flush worker is woken up for T0b's record; it is preempted
// before it reaches the log (`Db::flush_worker`, between `wait()` and `flush_logs`). The log worker
// appends T1's record (larger than the 8 KiB buffer) to the same log file; one `write` fails with
// ENOSPC, the record stays incomplete, the log worker reports the error (slow log sink) before it
// shuts the workers down. The flush worker continues: it takes the log file - T0b complete, T1 in
// part -, syncs it and queues it; the commit worker applies T0b and the piece of T1. Power loss
// (directory copied), recovery, read.
#![cfg(feature = "instrumentation")]

use parity_db::{Db, Options};
use std::{
	path::Path,
	sync::atomic::{AtomicBool, AtomicUsize, Ordering::SeqCst},
	time::Duration,
};

static ARMED: AtomicBool = AtomicBool::new(false);
static FAILED_WRITES: AtomicUsize = AtomicUsize::new(0);

#[no_mangle]
#[inline(never)]
pub extern "C" fn h2c12_marker_before() {
	std::hint::black_box(());
}

#[no_mangle]
#[inline(never)]
pub extern "C" fn h2c12_marker_worker_failed() {
	std::hint::black_box(());
}

fn is_log_fd(fd: libc::c_int) -> bool {
	match std::fs::read_link(format!("/proc/self/fd/{fd}")) {
		Ok(p) => p.file_name().and_then(|n| n.to_str()).map_or(false, |n| {
			n.len() > 3 && n.starts_with("log") && n[3..].chars().all(|c| c.is_ascii_digit())
		}),
		Err(_) => false,
	}
}

// Takes precedence over the definition in libc.so for every caller in this executable.
#[no_mangle]
pub unsafe extern "C" fn write(
	fd: libc::c_int,
	buf: *const libc::c_void,
	count: libc::size_t,
) -> libc::ssize_t {
	// The first large write to a log file fails, once: the device is full for a moment.
	if count >= 4096 && ARMED.load(SeqCst) && is_log_fd(fd) && ARMED.swap(false, SeqCst) {
		FAILED_WRITES.fetch_add(1, SeqCst);
		*libc::__errno_location() = libc::ENOSPC;
		return -1
	}
	libc::syscall(libc::SYS_write, fd, buf, count) as libc::ssize_t
}

struct SlowLogger;
impl log::Log for SlowLogger {
	fn enabled(&self, m: &log::Metadata) -> bool {
		m.target() == "parity-db" && m.level() <= log::Level::Warn
	}
	fn log(&self, r: &log::Record) {
		if self.enabled(r.metadata()) {
			let msg = format!("{}", r.args());
			if msg.starts_with("Background worker error") {
				eprintln!("[lib] {msg}");
				h2c12_marker_worker_failed();
				// Slow log sink.
				std::thread::sleep(Duration::from_millis(500));
			}
		}
	}
	fn flush(&self) {}
}
static LOGGER: SlowLogger = SlowLogger;

fn copy_dir(from: &Path, to: &Path) {
	std::fs::create_dir_all(to).unwrap();
	for e in std::fs::read_dir(from).unwrap() {
		let e = e.unwrap();
		if e.file_name() == "lock" {
			continue
		}
		std::fs::copy(e.path(), to.join(e.file_name())).unwrap();
	}
}

fn key(b: u8) -> Vec<u8> {
	vec![b; 32]
}

#[test]
fn record_whose_log_write_failed_is_not_applied_threads() {
	log::set_logger(&LOGGER).unwrap();
	log::set_max_level(log::LevelFilter::Warn);

	let dir = tempfile::tempdir().unwrap();
	let path = dir.path().join("db");
	let mut options = Options::with_columns(&path, 1);
	options.salt = Some([1; 32]);
	options.always_flush = true; // the flush worker takes a log file of any size
	assert!(options.with_background_thread && options.sync_wal && options.sync_data);

	// Two values in one record do not fit into the 8 KiB buffer of the log writer.
	let old1 = vec![0x11u8; 6000];
	let old2 = vec![0x22u8; 6000];
	let new1 = vec![0xa1u8; 6000];
	let new2 = vec![0xa2u8; 6000];

	let db = Db::open_or_create(&options).unwrap();
	db.commit(vec![(0u8, key(1), Some(old1.clone())), (0u8, key(2), Some(old2.clone()))]).unwrap();
	std::thread::sleep(Duration::from_millis(500)); // logged, synced, enacted, log cleaned

	h2c12_marker_before();
	ARMED.store(true, SeqCst);
	db.commit(vec![(0u8, key(3), Some(vec![0x33u8; 100]))]).unwrap();
	db.commit(vec![(0u8, key(1), Some(new1.clone())), (0u8, key(2), Some(new2.clone()))]).unwrap();
	std::thread::sleep(Duration::from_millis(1500));
	assert_eq!(FAILED_WRITES.load(SeqCst), 1, "the write of T1's record was made to fail");

	// Power loss: every page written so far reaches the disk.
	let crash = dir.path().join("crash");
	copy_dir(&path, &crash);
	drop(db);

	let mut options2 = Options::with_columns(&crash, 1);
	options2.salt = Some([1; 32]);
	let db2 = Db::open(&options2).unwrap();
	assert!(db2.get(0, &key(3)).unwrap().is_some(), "T0b was committed before T1");
	let v1 = db2.get(0, &key(1)).unwrap().expect("K1 was committed by T0");
	let v2 = db2.get(0, &key(2)).unwrap().expect("K2 was committed by T0");
	println!(
		"after the power loss: K1 {}, K2 {}",
		if v1 == new1 { "new" } else { "old" },
		if v2 == new2 { "new" } else { "old" },
	);
	assert!(v1 == old1 || v1 == new1);
	assert!(v2 == old2 || v2 == new2);
	let none = v1 == old1 && v2 == old2;
	let all = v1 == new1 && v2 == new2;
	assert!(none || all, "transaction T1 = {{K1, K2}} is torn after recovery");
}
