# imposes the schedule of triage_f42.rs: the reader is held between its two searches while the
# thread running the test completes the index growth; then everything runs on
set pagination off
set confirm off
set breakpoint pending on
break src/column.rs:232
break f42_growth_done
run
python
import gdb
reader = gdb.selected_thread()
print("reader parked before the queue search: thread %d" % reader.num)
gdb.execute("delete 1")
gdb.execute("set scheduler-locking on")
done = False
for t in gdb.selected_inferior().threads():
    if t.num == reader.num or done:
        continue
    t.switch()
    # the thread running the test is the one asleep in the test function
    fr = gdb.newest_frame()
    names = []
    while fr is not None and len(names) < 40:
        names.append(fr.name() or "")
        fr = fr.older()
    if any("lookup_during_the_last_growth_batch" in n for n in names):
        print("running the growth on thread %d with the reader frozen" % t.num)
        gdb.execute("continue")
        done = True
print("growth done: releasing the reader")
gdb.execute("set scheduler-locking off")
gdb.execute("continue")
end
