// H4C01 finding 2: on a column with lz4 compression a value longer than 0x7E000000 bytes
// (2 113 929 216, the input limit of the lz4 block format; db.rs documents "Value sizes up to 4Gb
// are allowed") is accepted by `Db::commit` and readable from the commit overlay, but can never be
// written: `Column::compress` -> `Lz4::compress` unwraps the error the lz4 crate returns for an
// input that long. The panic happens on whatever thread runs `process_commits` (the log worker, or
// the thread that drops the `Db`); the commit has already left the queue, so after a clean close
// and reopen the key is gone although its commit succeeded.
//
//   cargo test --offline --features instrumentation --test hunt_H4C01_2
//
// The value is all zeroes and is never touched before the panic, so the test is cheap on the
// unmodified code. On an implementation that stores the value (uncompressed) it really moves 2 GB
// through the log, which takes a while and a few GB of memory; one that refuses the commit passes
// right away.

use parity_db::{ColumnOptions, CompressionType, Db, Options};
use std::panic::{catch_unwind, AssertUnwindSafe};

fn options(path: &std::path::Path) -> Options {
	let mut o = Options::with_columns(path, 1);
	o.columns[0] =
		ColumnOptions { compression: CompressionType::Lz4, ..Default::default() };
	o.stats = false;
	o.with_background_thread = false;
	o
}

#[test]
fn value_longer_than_the_lz4_input_limit() {
	let tmp = tempfile::tempdir().unwrap();
	let len: usize = 0x7E00_0000 + 1;
	assert!((len as u64) < (4u64 << 30));
	let key = b"big".to_vec();

	let db = Db::open_or_create(&options(tmp.path())).unwrap();
	db.commit(vec![(0u8, b"small".to_vec(), Some(b"small value".to_vec()))]).unwrap();
	if db.commit(vec![(0u8, key.clone(), Some(vec![0u8; len]))]).is_err() {
		// Refusing the value up front is fine: the property speaks of successful commits.
		return
	}
	// Queued: served from the commit overlay.
	assert_eq!(db.get_size(0, &key).unwrap(), Some(len as u32));

	// The log worker's step, for both commits.
	let logged = catch_unwind(AssertUnwindSafe(|| {
		db.process_commits().unwrap();
		db.process_commits().unwrap();
	}));
	let panicked = logged.is_err();
	if !panicked {
		db.flush_logs().unwrap();
		db.enact_logs().unwrap();
		db.clean_logs().unwrap();
		assert_eq!(db.get_size(0, &key).unwrap(), Some(len as u32));
	}

	// Clean close and reopen.
	drop(db);
	let db = Db::open(&options(tmp.path())).unwrap();
	assert_eq!(db.get(0, b"small").unwrap(), Some(b"small value".to_vec()));
	let after_reopen = db.get_size(0, &key).unwrap();

	assert!(
		!panicked && after_reopen == Some(len as u32),
		"commit of a {} byte value succeeded; process_commits panicked: {}; size reported after a clean close and reopen: {:?}",
		len,
		panicked,
		after_reopen,
	);
}
