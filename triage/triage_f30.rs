// HC17 finding 3: `Db::add_column` and `Db::reset_column` do not apply the option check
// (`ColumnOptions::is_valid`) that every `Db::open*` applies (as an `assert!`). Handing them an
// invalid flag combination (e.g. `ref_counted` without `preimage`) succeeds and stores it in the
// metadata file. From then on the database cannot be opened at all: options equal to the metadata
// panic in `open_inner`, any other options are rejected as a mismatch, and since
// `drop_last_column` / `reset_column` / `clear_column` all begin by opening the database they
// panic as well. All other columns' content is out of reach through the API.
//
// A correct implementation rejects the invalid options with an error and modifies nothing (or,
// alternatively, accepts them and keeps the database usable).
//
// Run: cargo test --offline --test hunt_HC17_3

use parity_db::{ColumnOptions, Db, Options};
use std::panic::{catch_unwind, AssertUnwindSafe};

fn key(i: u32) -> Vec<u8> {
	format!("key-{i}").into_bytes()
}

fn value(i: u32) -> Vec<u8> {
	format!("value-{i}").into_bytes()
}

fn invalid() -> ColumnOptions {
	let o = ColumnOptions { ref_counted: true, preimage: false, ..Default::default() };
	assert!(!o.is_valid());
	o
}

fn make_db(path: &std::path::Path) -> Options {
	let options = Options::with_columns(path, 2);
	let db = Db::open_or_create(&options).unwrap();
	db.commit((0..20u32).map(|i| (0u8, key(i), Some(value(i))))).unwrap();
	drop(db);
	options
}

/// The database must open (without panicking) with the options the administration call left
/// behind when it reported success, or with the original ones when it reported failure, and
/// column 0 must be intact.
fn check_usable(call_result: parity_db::Result<()>, original: &Options, after: &Options) {
	let options = if call_result.is_ok() { after } else { original };
	let opened = catch_unwind(AssertUnwindSafe(|| Db::open(options)));
	let db = match opened {
		Ok(Ok(db)) => db,
		Ok(Err(e)) => panic!("database cannot be opened any more: {e:?}"),
		Err(_) => panic!(
			"Db::open panics after the administration call returned {:?}; stored metadata: {:?}",
			call_result.as_ref().map_err(|e| e.to_string()),
			Options::load_metadata(&original.path).unwrap().map(|m| m.columns),
		),
	};
	for i in 0..20u32 {
		assert_eq!(db.get(0, &key(i)).unwrap(), Some(value(i)), "column 0 key {i}");
	}
}

#[test]
fn add_column_with_invalid_options_keeps_db_usable() {
	let dir = tempfile::tempdir().unwrap();
	let path = dir.path().join("db");
	let original = make_db(&path);

	let mut options = original.clone();
	let r = Db::add_column(&mut options, invalid());
	check_usable(r, &original, &options);
}

#[test]
fn reset_column_with_invalid_options_keeps_db_usable() {
	let dir = tempfile::tempdir().unwrap();
	let path = dir.path().join("db");
	let original = make_db(&path);

	let mut options = original.clone();
	let r = Db::reset_column(&mut options, 1, Some(invalid()));
	check_usable(r, &original, &options);
}

#[test]
fn invalid_column_can_be_dropped_again() {
	let dir = tempfile::tempdir().unwrap();
	let path = dir.path().join("db");
	let original = make_db(&path);

	let mut options = original.clone();
	if Db::add_column(&mut options, invalid()).is_ok() {
		// The only way back would be to drop the column again.
		let dropped = catch_unwind(AssertUnwindSafe(|| Db::drop_last_column(&mut options)));
		assert!(
			matches!(dropped, Ok(Ok(()))),
			"drop_last_column cannot remove the column add_column accepted (panic: {})",
			dropped.is_err()
		);
	}
	check_usable(Ok(()), &original, &original);
}
