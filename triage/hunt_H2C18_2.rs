// C18: "... every other attempt to open the same directory fails with a lock error and changes
// nothing".
//
// Deterministic, single-threaded companion of hunt_H2C18_1 (same root cause: `migrate` writes
// before it has any lock, src/migration.rs:50-59). While a handle is alive on the SOURCE directory,
// `migrate(src, to, ..)` is refused with `Error::Locked` - but it has already created the
// destination directory and written a `metadata` file (salt, version and column options of this
// refused call) into it. The leftover is not inert: it pins the column layout of the destination,
// so a later migration to the same path with other column options is refused with
// `IncompatibleColumnConfig` although no migration ever succeeded.
//
// Run: cargo test --offline --features instrumentation --test hunt_H2C18_2

use parity_db::{CompressionType, Db, Options};

#[test]
fn migrate_refused_by_the_lock_changes_nothing() {
	let tmp = tempfile::tempdir().unwrap();
	let src = tmp.path().join("src");
	let dst = tmp.path().join("dst");

	let mut o = Options::with_columns(&src, 1);
	o.with_background_thread = false;
	let holder = Db::open_or_create(&o).unwrap();
	holder.commit(vec![(0u8, b"k".to_vec(), Some(b"v".to_vec()))]).unwrap();

	// A handle is alive on `src`: the migration has to be refused, and must not leave anything.
	let r = parity_db::migrate(&src, Options::with_columns(&dst, 1), false, &[]);
	assert!(matches!(r, Err(parity_db::Error::Locked(_))), "expected a lock error, got {r:?}");
	let leftover: Vec<_> = std::fs::read_dir(&dst)
		.map(|d| d.map(|e| e.unwrap().file_name()).collect())
		.unwrap_or_default();
	eprintln!("dst exists: {}, contains: {leftover:?}", dst.exists());

	// Consequence: once the source is free, migrating it to `dst` with the options the user
	// really wants is refused because of the metadata the refused call left behind.
	drop(holder);
	let mut to = Options::with_columns(&dst, 1);
	to.columns[0].compression = CompressionType::Lz4;
	let second = parity_db::migrate(&src, to, false, &[]);
	eprintln!("migration after the source was released: {second:?}");

	assert!(
		leftover.is_empty(),
		"a migrate call refused with Error::Locked created {dst:?} containing {leftover:?}"
	);
	second.unwrap();
}
