// Property C14: one transaction removes a tree, inserts another tree under the same key and removes
// that one again. No reader, no crash, nothing concurrent.
//
// Run: cargo test --offline --features instrumentation --test hunt_H4C14_2
//
// `DereferenceTree` takes the list of children to release from the root as it is stored when the
// transaction is SUBMITTED (`DbInner::commit_changes` reads the root through `self.get`), not from
// the root that is there when the removal is planned. The second removal of the transaction
// therefore releases the children of the OLD tree a second time and never looks at the new ones.

#![cfg(feature = "instrumentation")]

use parity_db::{ColumnOptions, Db, NewNode, NodeRef, Operation, Options};

fn options(path: &std::path::Path) -> Options {
	let mut o = Options::with_columns(path, 1);
	o.columns[0] =
		ColumnOptions { multitree: true, allow_direct_node_access: true, ..Default::default() };
	o.with_background_thread = false;
	o.always_flush = true;
	o
}

fn tree(root: &[u8], leaves: &[&[u8]]) -> NewNode {
	NewNode {
		data: root.to_vec(),
		children: leaves
			.iter()
			.map(|l| NodeRef::New(NewNode { data: l.to_vec(), children: vec![] }))
			.collect(),
	}
}

fn drain(db: &Db) {
	for _ in 0..8 {
		db.process_commits().unwrap();
		db.flush_logs().unwrap();
		db.enact_logs().unwrap();
		db.clean_logs().unwrap();
	}
}

fn leaves_of(db: &Db, key: &[u8]) -> Option<Vec<Option<Vec<u8>>>> {
	let (_, children) = db.get_root(0, key).unwrap()?;
	Some(children.iter().map(|a| db.get_node(0, *a).unwrap().map(|n| n.0)).collect())
}

#[test]
fn remove_insert_remove_in_one_transaction() {
	let dir = tempfile::tempdir().unwrap();
	let options = options(dir.path());
	let db = Db::open_or_create(&options).unwrap();
	let key = b"tree-K".to_vec();

	db.commit_changes(vec![(0, Operation::InsertTree(key.clone(), tree(b"root-1", &[b"a1", b"a2"])))])
		.unwrap();
	drain(&db);
	assert_eq!(db.get_num_column_value_entries(0).unwrap(), 3);

	db.commit_changes(vec![
		(0, Operation::DereferenceTree(key.clone())),
		(0, Operation::InsertTree(key.clone(), tree(b"root-2", &[b"b1", b"b2"]))),
		(0, Operation::DereferenceTree(key.clone())),
	])
	.unwrap();
	drain(&db);

	// Nothing is left under K ...
	assert_eq!(db.get_root(0, &key).unwrap(), None);
	// ... so nothing may be allocated any more.
	let used = db.get_num_column_value_entries(0).unwrap();

	// Every slot the table hands out from now on is handed out once.
	db.commit_changes(vec![
		(0, Operation::InsertTree(b"X".to_vec(), tree(b"root-x", &[b"x1", b"x2"]))),
		(0, Operation::InsertTree(b"Y".to_vec(), tree(b"root-y", &[b"y1", b"y2"]))),
	])
	.unwrap();
	drain(&db);
	let x = leaves_of(&db, b"X");
	let y = leaves_of(&db, b"Y");
	drop(db);
	let db = Db::open(&options).unwrap();
	assert_eq!(
		(used, x, y, leaves_of(&db, b"X"), leaves_of(&db, b"Y")),
		(
			0,
			Some(vec![Some(b"x1".to_vec()), Some(b"x2".to_vec())]),
			Some(vec![Some(b"y1".to_vec()), Some(b"y2".to_vec())]),
			Some(vec![Some(b"x1".to_vec()), Some(b"x2".to_vec())]),
			Some(vec![Some(b"y1".to_vec()), Some(b"y2".to_vec())]),
		),
		"(used slots after everything was removed, leaves of X, leaves of Y, same after reopen)"
	);
}

#[test]
fn control_same_operations_in_three_transactions() {
	let dir = tempfile::tempdir().unwrap();
	let options = options(dir.path());
	let db = Db::open_or_create(&options).unwrap();
	let key = b"tree-K".to_vec();
	db.commit_changes(vec![(0, Operation::InsertTree(key.clone(), tree(b"root-1", &[b"a1", b"a2"])))])
		.unwrap();
	db.commit_changes(vec![(0, Operation::DereferenceTree(key.clone()))]).unwrap();
	db.commit_changes(vec![(0, Operation::InsertTree(key.clone(), tree(b"root-2", &[b"b1", b"b2"])))])
		.unwrap();
	db.commit_changes(vec![(0, Operation::DereferenceTree(key.clone()))]).unwrap();
	drain(&db);
	assert_eq!(db.get_root(0, &key).unwrap(), None);
	assert_eq!(db.get_num_column_value_entries(0).unwrap(), 0);
}
