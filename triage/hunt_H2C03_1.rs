// H2C03 - RESIDUAL of the first-round finding (HC03 finding 1), after the repair 5a325c0
// "a deferral postpones only the tree removals of a commit". Check it against the list of known
// findings before counting it: the root cause is the same (a deferred `DereferenceTree` is re-queued
// behind commits that were accepted after it), only the consequence is narrower now.
//
// History: a multitree column holds tree T and a thread holds `get_tree(T).read()`.
//   tx1 = [DereferenceTree(T)]   commit returns Ok
//   tx2 = [Set(col0, k2, v2)]    commit returns Ok
// The log worker makes two steps, the flush worker syncs the log, the process crashes (image = copy
// of the directory). After recovery tx2 is present and tx1 is not: the crash lost an older
// acknowledged commit and kept a newer one, i.e. not "at most a suffix of not-yet-synced commits".
// The removal is in memory only, so it is lost for good: T stays in the database.
//
// Run: cargo test --offline --features instrumentation --test hunt_H2C03_1
#![cfg(feature = "instrumentation")]

use parity_db::{ColumnOptions, Db, NewNode, NodeRef, Operation, Options};

fn options(path: &std::path::Path) -> Options {
	let mut o = Options::with_columns(path, 2);
	o.columns[1] =
		ColumnOptions { multitree: true, allow_direct_node_access: true, ..Default::default() };
	o.stats = false;
	o.with_background_thread = false;
	o
}

fn copy_dir(from: &std::path::Path, to: &std::path::Path) {
	std::fs::create_dir_all(to).unwrap();
	for e in std::fs::read_dir(from).unwrap() {
		let e = e.unwrap();
		if e.file_name() == "lock" {
			continue
		}
		std::fs::copy(e.path(), to.join(e.file_name())).unwrap();
	}
}

#[test]
fn crash_keeps_newer_commit_but_loses_older_tree_removal() {
	let dir = tempfile::tempdir().unwrap();
	let o = options(&dir.path().join("db"));
	let db = Db::open_or_create(&o).unwrap();
	let root = b"root-key-0000000000000000000000a".to_vec();
	let tree = NewNode {
		data: b"root".to_vec(),
		children: vec![NodeRef::New(NewNode { data: b"child".to_vec(), children: vec![] })],
	};
	db.commit_changes(vec![(1u8, Operation::InsertTree(root.clone(), tree))]).unwrap();
	db.process_commits().unwrap();
	db.flush_logs().unwrap();
	db.enact_logs().unwrap();
	db.clean_logs().unwrap();

	let reader = db.get_tree(1, &root).unwrap().unwrap();
	let guard = reader.read();
	// tx1: removal of the tree, acknowledged
	db.commit_changes(vec![(1u8, Operation::DereferenceTree(root.clone()))]).unwrap();
	// tx2: a later commit, acknowledged
	db.commit(vec![(0u8, b"k2".to_vec(), Some(b"v2".to_vec()))]).unwrap();
	db.process_commits().unwrap(); // log worker step 1
	db.process_commits().unwrap(); // log worker step 2
	db.flush_logs().unwrap(); // flush worker: the log file is synced
	let img = dir.path().join("img");
	copy_dir(&o.path, &img); // crash
	drop(guard);
	drop(reader);
	drop(db);

	let mut o2 = o.clone();
	o2.path = img;
	let db = Db::open(&o2).unwrap();
	let k2 = db.get(0, b"k2").unwrap();
	let tree_after = db.get_root(1, &root).unwrap();
	assert!(
		!(k2.is_some() && tree_after.is_some()),
		"after recovery tx2 (newer) is present but tx1 (older, the removal of the tree) is lost"
	);
}
