// C12, same finding as hunt_h6C12_1.rs, with the real worker threads and a real error return of
// fdatasync(2): the flush worker's fdatasync of log file A fails (EIO), the flush worker stops with
// that error; the log worker, which had a commit queued, logs it into a NEW file B. A and B are both
// un-synced. Power loss: nothing of A, all of B -> T2 without T1.
//
//   cargo test --offline --features instrumentation --test hunt_h6C12_1_threads -- --nocapture
#![cfg(feature = "instrumentation")]

use parity_db::{ColumnOptions, Db, Options};
use std::{
	collections::HashMap,
	path::{Path, PathBuf},
	sync::{
		atomic::{AtomicBool, AtomicUsize, Ordering},
		Mutex,
	},
	time::Duration,
};

static DURABLE_LEN: Mutex<Option<HashMap<PathBuf, u64>>> = Mutex::new(None);
static SYNC_TRACE: Mutex<Vec<String>> = Mutex::new(Vec::new());
// The next fdatasync of a log file waits for RELEASE and then fails with EIO (once).
static ARMED: AtomicBool = AtomicBool::new(false);
static ENTERED: AtomicBool = AtomicBool::new(false);
static RELEASE: AtomicBool = AtomicBool::new(false);
static LOG_TRUNCATIONS: AtomicUsize = AtomicUsize::new(0);

fn log_name(fd: libc::c_int) -> Option<(PathBuf, String)> {
	let path = std::fs::read_link(format!("/proc/self/fd/{fd}")).ok()?;
	let name = path.file_name()?.to_str()?.to_string();
	if name.starts_with("log") {
		Some((path, name))
	} else {
		None
	}
}

fn note_sync(what: &str, fd: libc::c_int, ok: bool) {
	if let Some((path, name)) = log_name(fd) {
		let len = std::fs::metadata(&path).map(|m| m.len()).unwrap_or(0);
		SYNC_TRACE
			.lock()
			.unwrap()
			.push(format!("{what}({name}, len {len}) = {}", if ok { "ok" } else { "EIO" }));
		if ok {
			if let Some(map) = DURABLE_LEN.lock().unwrap().as_mut() {
				map.insert(path, len);
			}
			if len == 0 {
				LOG_TRUNCATIONS.fetch_add(1, Ordering::SeqCst);
			}
		}
	}
}

#[no_mangle]
pub extern "C" fn fdatasync(fd: libc::c_int) -> libc::c_int {
	if log_name(fd).is_some() && ARMED.swap(false, Ordering::SeqCst) {
		ENTERED.store(true, Ordering::SeqCst);
		while !RELEASE.load(Ordering::SeqCst) {
			std::thread::sleep(Duration::from_millis(5));
		}
		note_sync("fdatasync", fd, false);
		unsafe { *libc::__errno_location() = libc::EIO };
		return -1
	}
	let r = unsafe { libc::syscall(libc::SYS_fdatasync, fd) } as libc::c_int;
	note_sync("fdatasync", fd, r == 0);
	r
}

#[no_mangle]
pub extern "C" fn fsync(fd: libc::c_int) -> libc::c_int {
	let r = unsafe { libc::syscall(libc::SYS_fsync, fd) } as libc::c_int;
	note_sync("fsync", fd, r == 0);
	r
}

fn options(path: &Path, threads: bool) -> Options {
	let mut o = Options::with_columns(path, 1);
	o.columns[0] = ColumnOptions { uniform: true, ..Default::default() };
	o.salt = Some([0; 32]);
	o.with_background_thread = threads;
	// The flush worker takes a log file at once (a build without `instrumentation` waits until the
	// file has 64 MiB; that only changes how much is in the file whose sync fails).
	o.always_flush = true;
	assert!(o.sync_wal && o.sync_data);
	o
}

fn key(n: u8) -> Vec<u8> {
	let mut k = vec![0u8; 32];
	k[0] = n;
	k[1] = 0x55;
	k[31] = n;
	k
}

fn log_files(dir: &Path) -> Vec<(String, u64)> {
	let mut v: Vec<_> = std::fs::read_dir(dir)
		.unwrap()
		.map(|e| e.unwrap())
		.filter(|e| e.file_name().to_str().unwrap().starts_with("log"))
		.map(|e| (e.file_name().to_str().unwrap().to_string(), e.metadata().unwrap().len()))
		.collect();
	v.sort();
	v
}

fn wait_for(what: &str, f: impl Fn() -> bool) {
	for _ in 0..2000 {
		if f() {
			return
		}
		std::thread::sleep(Duration::from_millis(5));
	}
	panic!("timeout waiting for {what}");
}

/// Table files as they are, log files = synced part + `tail(name, len)` un-synced bytes.
fn power_loss_image(src: &Path, dst: &Path, tail: &dyn Fn(&str, u64) -> u64) {
	std::fs::create_dir_all(dst).unwrap();
	let durable = DURABLE_LEN.lock().unwrap().clone().unwrap();
	for e in std::fs::read_dir(src).unwrap() {
		let e = e.unwrap();
		let name = e.file_name().to_str().unwrap().to_string();
		if name == "lock" {
			continue
		}
		let to = dst.join(&name);
		if name.starts_with("log") {
			let data = std::fs::read(e.path()).unwrap();
			let d = durable.get(&e.path()).copied().unwrap_or(0).min(data.len() as u64);
			let keep = d + tail(&name, data.len() as u64).min(data.len() as u64 - d);
			std::fs::write(&to, &data[..keep as usize]).unwrap();
		} else {
			std::fs::copy(e.path(), &to).unwrap();
		}
	}
}

#[test]
fn failed_log_sync_with_worker_threads() {
	let tmp = tempfile::tempdir().unwrap();
	let dir = tmp.path().join("db");
	*DURABLE_LEN.lock().unwrap() = Some(HashMap::new());

	let v0 = vec![0xA0u8; 40];
	let v1 = vec![0xA1u8; 40];
	let v2 = vec![0xA2u8; 40];

	let db = Db::open_or_create(&options(&dir, true)).unwrap();

	// T0 goes all the way: logged, synced, enacted, its log truncated and fsynced.
	db.commit(vec![(0u8, key(0), Some(v0.clone()))]).unwrap();
	wait_for("cleanup of the log of T0", || LOG_TRUNCATIONS.load(Ordering::SeqCst) >= 1);
	std::thread::sleep(Duration::from_millis(100));

	// T1. The flush worker takes its log file and enters fdatasync (it holds the `appending` lock).
	ARMED.store(true, Ordering::SeqCst);
	db.commit(vec![(0u8, key(1), Some(v1.clone()))]).unwrap();
	wait_for("the flush worker to sync the log of T1", || ENTERED.load(Ordering::SeqCst));
	println!("flush worker is in fdatasync: {:?}", log_files(&dir));

	// T2 is accepted and taken by the log worker (it waits for the `appending` lock).
	db.commit(vec![(0u8, key(2), Some(v2.clone()))]).unwrap();
	std::thread::sleep(Duration::from_millis(300));

	// fdatasync returns EIO.
	RELEASE.store(true, Ordering::SeqCst);
	std::thread::sleep(Duration::from_millis(500));
	println!("after the failed sync:        {:?}", log_files(&dir));
	let refused = db.commit(vec![(0u8, key(3), Some(vec![1u8; 8]))]);
	println!("a further commit: {:?}", refused.as_ref().err().map(|e| e.to_string()));
	drop(db);
	println!("after drop:                   {:?}", log_files(&dir));
	for l in SYNC_TRACE.lock().unwrap().iter() {
		println!("  sync call: {l}");
	}

	let nonempty: Vec<_> = log_files(&dir).into_iter().filter(|(_, l)| *l > 0).collect();
	let durable = DURABLE_LEN.lock().unwrap().clone().unwrap();
	for (name, len) in &nonempty {
		let d = durable.get(&dir.join(name)).copied().unwrap_or(0);
		println!("  {name}: {len} bytes, {d} of them synced");
	}
	if nonempty.len() == 2 {
		println!("  -> two log files with un-synced content side by side");
	}
	// A = the file whose sync failed.
	let a_name = SYNC_TRACE
		.lock()
		.unwrap()
		.iter()
		.find(|l| l.ends_with("EIO"))
		.map(|l| l["fdatasync(".len()..l.find(',').unwrap()].to_string())
		.unwrap();

	// Power loss: nothing of A's un-synced bytes reached the disk (its fdatasync had just failed),
	// B's did (ordinary write-back).
	let img = tmp.path().join("img");
	power_loss_image(&dir, &img, &|name, len| if name == a_name { 0 } else { len });
	println!("power-loss image:             {:?}", log_files(&img));
	let db = Db::open(&options(&img, false)).unwrap();
	let k0 = db.get(0, &key(0)).unwrap() == Some(v0.clone());
	let k1 = db.get(0, &key(1)).unwrap() == Some(v1.clone());
	let k2 = db.get(0, &key(2)).unwrap() == Some(v2.clone());
	println!("recovered: T0 {k0}  T1 {k1}  T2 {k2}");
	assert!(k0, "T0 was synced, enacted and flushed");
	assert!(
		!(k2 && !k1),
		"recovery yields T2 without T1: not a prefix of the committed transactions T0, T1, T2"
	);
}
