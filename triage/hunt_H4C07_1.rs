// C07, round 4: a lookup in a reference-counted hash column follows the parts of a multipart
// value through separately locked reads. When the record that dereferences the key to zero and
// stores another large value (which takes over the freed slots) is logged and enacted while the
// lookup is between two parts, `Db::get` returns bytes that were never the value of the key:
// the head of the old value followed by parts of the other key's value.
// (Only a reference-counted column lets the lookup get that far: a `Dereference` is not mirrored
// in the commit overlay there, so `get` goes to the tables while the record is on its way.)
//
// The schedule is imposed from a `log::Log` implementation: the reader thread is parked inside
// the trace statement `ValueTable::for_parts` emits before it reads the second part from the
// file; the stepping API (`with_background_thread = false`) plays the log, flush and commit
// workers meanwhile. With real worker threads this is a reader that is preempted while one
// record goes through the pipeline.
//
// Run: cargo test --offline --features instrumentation --test hunt_H4C07_1
#![cfg(feature = "instrumentation")]

use parity_db::{ColumnOptions, Db, Operation, Options};
use std::{
	cell::Cell,
	sync::{Condvar, Mutex},
	time::{Duration, Instant},
};

#[derive(Default)]
struct Sched {
	armed: bool,
	reader_slots: usize,
	reader_parked: bool,
	release_reader: bool,
	record_logged: bool,
}

static SCHED: Mutex<Sched> = Mutex::new(Sched {
	armed: false,
	reader_slots: 0,
	reader_parked: false,
	release_reader: false,
	record_logged: false,
});
static CV: Condvar = Condvar::new();

thread_local! {
	static IS_READER: Cell<bool> = Cell::new(false);
}

struct Hook;

impl log::Log for Hook {
	fn enabled(&self, m: &log::Metadata) -> bool {
		m.target() == "parity-db"
	}
	fn log(&self, record: &log::Record) {
		if record.target() != "parity-db" {
			return
		}
		let msg = format!("{}", record.args());
		let mut s = SCHED.lock().unwrap();
		if !s.armed {
			return
		}
		if msg.contains("Finalizing log record") {
			s.record_logged = true;
			CV.notify_all();
			return
		}
		if IS_READER.with(|r| r.get()) && msg.contains("Query slot") {
			s.reader_slots += 1;
			if s.reader_slots == 2 {
				// About to read the second part of the value from the file.
				s.reader_parked = true;
				CV.notify_all();
				let deadline = Instant::now() + Duration::from_secs(30);
				while !s.release_reader && Instant::now() < deadline {
					s = CV.wait_timeout(s, Duration::from_millis(100)).unwrap().0;
				}
			}
		}
	}
	fn flush(&self) {}
}

fn wait_for(what: impl Fn(&Sched) -> bool, secs: u64) -> bool {
	let deadline = Instant::now() + Duration::from_secs(secs);
	let mut s = SCHED.lock().unwrap();
	while !what(&s) {
		if Instant::now() >= deadline {
			return false
		}
		s = CV.wait_timeout(s, Duration::from_millis(100)).unwrap().0;
	}
	true
}

fn big_value(tag: u8) -> Vec<u8> {
	// 40000 bytes: ten parts in the multipart table.
	(0..40_000u32).map(|i| tag ^ (i as u8) ^ ((i >> 8) as u8).wrapping_mul(31)).collect()
}

#[test]
fn lookup_returns_bytes_of_another_key_for_a_released_value() {
	log::set_boxed_logger(Box::new(Hook)).unwrap();
	log::set_max_level(log::LevelFilter::Trace);

	let tmp = tempfile::tempdir().unwrap();
	let mut options = Options::with_columns(tmp.path(), 1);
	options.columns[0] =
		ColumnOptions { preimage: true, ref_counted: true, ..Default::default() };
	options.with_background_thread = false;
	options.always_flush = true;
	options.stats = false;
	let db = Db::open_or_create(&options).unwrap();

	let (k1, v1) = (b"key one".to_vec(), big_value(0x11));
	let (k2, v2) = (b"key two".to_vec(), big_value(0xa7));

	// k1 is set once (count 1) and fully written to the tables.
	db.commit_changes([(0u8, Operation::Set(k1.clone(), v1.clone()))]).unwrap();
	db.process_commits().unwrap();
	db.flush_logs().unwrap();
	db.enact_logs().unwrap();
	db.clean_logs().unwrap();
	assert_eq!(db.get(0, &k1).unwrap(), Some(v1.clone()));

	// One accepted commit: k1 goes to zero, k2 is stored. It is still queued.
	db.commit_changes([
		(0u8, Operation::Dereference(k1.clone())),
		(0u8, Operation::Set(k2.clone(), v2.clone())),
	])
	.unwrap();

	SCHED.lock().unwrap().armed = true;
	let got = std::thread::scope(|scope| {
		let reader = scope.spawn(|| {
			IS_READER.with(|r| r.set(true));
			db.get(0, &k1)
		});
		assert!(wait_for(|s| s.reader_parked, 20), "the reader never got to the second part");

		// The log worker writes the record. It then waits for the reader (commit overlay lock),
		// so it runs on its own thread.
		let log_worker = scope.spawn(|| db.process_commits());
		// (A lookup that keeps the log overlay locked makes the log worker wait earlier: go on
		// after a while in any case.)
		wait_for(|s| s.record_logged, 5);
		// Flush worker and commit worker.
		if SCHED.lock().unwrap().record_logged {
			db.flush_logs().unwrap();
			db.enact_logs().unwrap();
		}

		{
			let mut s = SCHED.lock().unwrap();
			s.release_reader = true;
			s.armed = false;
			CV.notify_all();
		}
		let got = reader.join().unwrap();
		log_worker.join().unwrap().unwrap();
		got
	});

	// Everything accepted is in the log now: k1 is gone, k2 is there.
	db.process_commits().unwrap();
	assert_eq!(db.get(0, &k1).unwrap(), None);
	assert_eq!(db.get(0, &k2).unwrap(), Some(v2.clone()));

	// The lookup that ran concurrently may have seen k1 before or after the commit.
	let describe = |r: &parity_db::Result<Option<Vec<u8>>>| match r {
		Ok(None) => "None".to_string(),
		Ok(Some(v)) if *v == v1 => "the value of k1".to_string(),
		Ok(Some(v)) => {
			let same_as_v1 = v.iter().zip(v1.iter()).take_while(|(a, b)| a == b).count();
			let from_v2 = v2.windows(64).any(|w| v.len() >= same_as_v1 + 64 && w == &v[same_as_v1..same_as_v1 + 64]);
			format!(
				"{} bytes that were never stored under k1: the first {} bytes of its value, then other data (found in the value of k2: {})",
				v.len(),
				same_as_v1,
				from_v2
			)
		},
		Err(e) => format!("error {e}"),
	};
	assert!(
		matches!(&got, Ok(None)) || matches!(&got, Ok(Some(v)) if *v == v1),
		"get(k1) concurrent with the commit that releases k1 returned {}",
		describe(&got)
	);
}
