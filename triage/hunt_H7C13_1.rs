// C13, seventh pass, finding 1.
//
// The walk over the free list of a value table at the end of `Db::open`
// (`ValueTable::init_table_data`, multitree columns) is bounded by the table's fill mark. The fill
// mark is taken from the very log record that also supplies the links, so it bounds nothing: a
// complete, checksum-valid record with two tombstones that point at each other and a header with a
// large fill mark makes `Db::open` go round the two slots for 2^40 steps, inserting every step at
// the front of a growing vector (quadratic). `Db::open` does not return.
//
// cargo test --offline --features instrumentation --test hunt_h7C13_1

use parity_db::{ColumnOptions, Db, Options};
use std::{path::Path, sync::mpsc, time::Duration};

const BEGIN_RECORD: u8 = 1;
const INSERT_VALUE: u8 = 3;
const END_RECORD: u8 = 4;

fn options(path: &Path) -> Options {
	let mut o = Options::with_columns(path, 1);
	o.columns[0] = ColumnOptions { multitree: true, ..Default::default() };
	o.salt = Some([0; 32]);
	o
}

struct Record(Vec<u8>);

impl Record {
	fn new(id: u64) -> Record {
		let mut r = Record(vec![BEGIN_RECORD]);
		r.0.extend_from_slice(&id.to_le_bytes());
		r
	}
	fn insert_value(&mut self, col: u8, tier: u8, slot: u64, payload: &[u8]) {
		self.0.push(INSERT_VALUE);
		self.0.extend_from_slice(&(((col as u16) << 8) | tier as u16).to_le_bytes());
		self.0.extend_from_slice(&slot.to_le_bytes());
		self.0.extend_from_slice(payload);
	}
	fn finish(mut self) -> Vec<u8> {
		self.0.push(END_RECORD);
		let mut h = crc32fast::Hasher::new();
		h.update(&self.0);
		let crc = h.finalize();
		self.0.extend_from_slice(&crc.to_le_bytes());
		self.0
	}
}

fn tombstone(next: u64) -> Vec<u8> {
	let mut t = vec![0xff, 0xff];
	t.extend_from_slice(&next.to_le_bytes());
	t
}

fn header(last_removed: u64, filled: u64) -> Vec<u8> {
	let mut h = last_removed.to_le_bytes().to_vec();
	h.extend_from_slice(&filled.to_le_bytes());
	h
}

fn open_with_timeout(o: Options, secs: u64) -> Option<Result<(), String>> {
	let (tx, rx) = mpsc::channel();
	std::thread::spawn(move || {
		let r = std::panic::catch_unwind(|| match Db::open(&o) {
			Ok(db) => {
				drop(db);
				Ok(())
			},
			Err(e) => Err(format!("{e}")),
		});
		let _ = tx.send(match r {
			Ok(r) => r,
			Err(_) => Err("panicked".to_string()),
		});
	});
	rx.recv_timeout(Duration::from_secs(secs)).ok()
}

fn fresh_db(dir: &Path) {
	let db = Db::open_or_create(&options(dir)).unwrap();
	drop(db);
	assert!(!dir.join("log0").exists());
}

// Control: the same two tombstones, the fill mark just above them. The walk is cut off after two
// steps and the open comes back (with an error: the table is damaged).
#[test]
fn control_cycle_with_a_small_fill_mark_is_cut_off() {
	let dir = tempfile::tempdir().unwrap();
	fresh_db(dir.path());
	let mut r = Record::new(1);
	r.insert_value(0, 0, 1, &tombstone(2));
	r.insert_value(0, 0, 2, &tombstone(1));
	r.insert_value(0, 0, 0, &header(1, 3));
	std::fs::write(dir.path().join("log0"), r.finish()).unwrap();
	let res = open_with_timeout(options(dir.path()), 20);
	assert!(res.is_some(), "open did not return");
}

#[test]
fn cycle_in_the_free_list_with_a_large_fill_mark_makes_open_spin() {
	let dir = tempfile::tempdir().unwrap();
	fresh_db(dir.path());
	let mut r = Record::new(1);
	r.insert_value(0, 0, 1, &tombstone(2));
	r.insert_value(0, 0, 2, &tombstone(1));
	r.insert_value(0, 0, 0, &header(1, 1 << 40));
	std::fs::write(dir.path().join("log0"), r.finish()).unwrap();
	let res = open_with_timeout(options(dir.path()), 20);
	assert!(
		res.is_some(),
		"Db::open has not returned after 20 s: it follows a two-slot cycle of the free list for 2^40 steps"
	);
}
