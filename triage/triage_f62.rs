//! C20, finding 3: `migrate` reports success although the last batch was never written, when
//! that batch is processed by the shutdown of the destination handle and fails there.
//!
//! `Db::close` (added so that `migrate` sees a failure of the destination's workers) only looks
//! at the error a *worker thread* stored. Commits that are still queued when the log worker
//! leaves its loop are processed by `kill_logs` on the thread that closes the handle, and the
//! result of `kill_logs` is only logged (`drop_inner`: "Shutdown error").
//!
//! The log worker leaves its loop with a commit still queued when the shutdown flag is set
//! between its last `process_commits()` (queue empty) and the next test of the loop condition
//! (db.rs `log_worker`). That schedule is imposed with gdb (hunt_H3C20_3.gdb); the I/O failure
//! is injected with the instrumentation counter of the closing thread.
//!
//! Without gdb:  cargo test --offline --features instrumentation --test hunt_H3C20_3   (passes)
//! With gdb:     see hunt_H3C20_3.gdb                                                (fails)

#![cfg(feature = "instrumentation")]

use parity_db::{CompressionType, Db, Options};
use std::{
	sync::atomic::{AtomicBool, AtomicU64, Ordering},
	time::{Duration, Instant},
};

const N: u32 = 12000; // one batch of 10240 during the walk, 1760 sets in the final commit

static MAIN_THREAD: AtomicU64 = AtomicU64::new(0);
static QUEUED_1: AtomicBool = AtomicBool::new(false);
static PROCESSED_1: AtomicBool = AtomicBool::new(false);
static WAITED: AtomicBool = AtomicBool::new(false);
static INJECTED: AtomicBool = AtomicBool::new(false);

fn thread_id() -> u64 {
	// Stable enough: the address of a thread local.
	thread_local!(static MARK: u8 = 0);
	MARK.with(|m| m as *const u8 as u64)
}

struct Hook;

impl log::Log for Hook {
	fn enabled(&self, _: &log::Metadata) -> bool {
		true
	}
	fn flush(&self) {}
	fn log(&self, record: &log::Record) {
		let msg = record.args().to_string();
		let on_main = thread_id() == MAIN_THREAD.load(Ordering::SeqCst);
		if msg.starts_with("Processed commit 1 ") {
			PROCESSED_1.store(true, Ordering::SeqCst);
		}
		if !on_main {
			return
		}
		if msg.starts_with("Queued commit 1,") {
			QUEUED_1.store(true, Ordering::SeqCst);
		} else if msg.contains("Iterating at") &&
			QUEUED_1.load(Ordering::SeqCst) &&
			!WAITED.swap(true, Ordering::SeqCst)
		{
			// The walk goes on only when the destination has processed the first batch and its
			// log worker has found the queue empty (it then parks, or is stopped by gdb).
			let start = Instant::now();
			while !PROCESSED_1.load(Ordering::SeqCst) && start.elapsed() < Duration::from_secs(60) {
				std::thread::sleep(Duration::from_millis(5));
			}
			std::thread::sleep(Duration::from_millis(300));
		} else if msg.starts_with("Processing commit") {
			// A commit is being processed on the thread that called `migrate`: the record can
			// not be appended to the log ("disk full").
			INJECTED.store(true, Ordering::SeqCst);
			parity_db::set_number_of_allowed_io_operations(0);
		} else if msg.starts_with("Shutdown error") {
			// The fault is transient.
			parity_db::set_number_of_allowed_io_operations(usize::MAX);
		}
	}
}

fn key(i: u32) -> Vec<u8> {
	let mut k = vec![0x33u8; 32];
	k[..4].copy_from_slice(&i.to_be_bytes());
	k
}
fn value(i: u32) -> Vec<u8> {
	vec![(i % 251) as u8; 40 + (i % 50) as usize]
}

#[test]
fn the_last_batch_fails_while_the_handle_shuts_down() {
	MAIN_THREAD.store(thread_id(), Ordering::SeqCst);
	log::set_logger(&Hook).unwrap();

	let dir = tempfile::tempdir().unwrap();
	let source = Options::with_columns(&dir.path().join("source"), 1);
	{
		let db = Db::open_or_create(&source).unwrap();
		for chunk in 0..(N / 1000) {
			db.commit((chunk * 1000..(chunk + 1) * 1000).map(|i| (0u8, key(i), Some(value(i))))).unwrap();
		}
	}
	let mut to = Options::with_columns(&dir.path().join("dest"), 1);
	to.columns[0].compression = CompressionType::Lz4;

	log::set_max_level(log::LevelFilter::Debug);
	let result = parity_db::migrate(&source.path, to.clone(), false, &[]);
	log::set_max_level(log::LevelFilter::Off);
	parity_db::set_number_of_allowed_io_operations(usize::MAX);

	println!("migrate returned {:?}, fault injected: {}", result, INJECTED.load(Ordering::SeqCst));
	if result.is_ok() {
		let dest = Db::open(&to).unwrap();
		let present = (0..N).filter(|i| dest.get(0, &key(*i)).unwrap() == Some(value(*i))).count();
		assert_eq!(present, N as usize, "migrate returned Ok(()), keys of the source found in the destination");
	}
}
