// Demonstration for C15 ("the pipeline always drains: commits return, shutdown terminates"),
// mechanism "background error wakes throttled committers".
//
// Scenario: a client is throttled in `commit` because the in-memory commit queue is above its
// 16 MiB limit, and while it is parked the log worker dies with an I/O error (it cannot create a
// write-ahead log file because the database directory has been moved away). The throttled commit
// call must return (with `Error::Background`) instead of staying parked forever, and dropping the
// handle afterwards must terminate.
//
// Run with:
//   cargo test --offline --features instrumentation --test seed_C15e -- --test-threads 1
// (the `instrumentation` feature is not required, the test uses only the plain public API).

use parity_db::{Db, Error, Options};
use std::{
	sync::{mpsc, Arc},
	thread,
	time::{Duration, Instant},
};

const SMALL_OPS: u32 = 300_000;
const BIG_VALUE: usize = 17 * 1024 * 1024;
const WATCHDOG: Duration = Duration::from_secs(20);

#[test]
fn commit_arriving_after_the_log_worker_died_returns() {
	let tmp = tempfile::tempdir().unwrap();
	let path = tmp.path().join("db");
	let options = Options::with_columns(&path, 1);
	// Background workers are running (default).
	let db = Arc::new(Db::open_or_create(&options).unwrap());

	// From now on no new file can be created under the path the database was opened with. Files
	// that are already open stay usable. No log file exists yet (a fresh/cleanly opened database
	// has none), so the log worker fails when it finishes the first record and asks for one.
	std::fs::rename(&path, tmp.path().join("db.moved")).unwrap();

	// Prepare everything up front so that the three commit calls below are issued back to back.
	let slow: Vec<(u8, Vec<u8>, Option<Vec<u8>>)> = (0..SMALL_OPS)
		.map(|i| {
			let mut key = vec![0u8; 32];
			key[0..4].copy_from_slice(&i.to_le_bytes());
			key[4] = 0xa5;
			(0u8, key, Some(i.to_le_bytes().to_vec()))
		})
		.collect();
	let big = vec![(0u8, b"big value".to_vec(), Some(vec![0x5au8; BIG_VALUE]))];
	let late = vec![(0u8, b"late".to_vec(), Some(b"x".to_vec()))];

	// 1. A commit with very many small insertions (about 11 MiB accounted, below the limit). It
	//    keeps the log worker busy planning for a long time (hundreds of milliseconds) before the
	//    worker reaches the point where it needs the log file and fails.
	db.commit(slow).unwrap();
	// 2. One 17 MiB value: accepted (the queue is below the limit when it arrives) and lifts the
	//    queue above the 16 MiB limit. Values are reference counted, so this takes microseconds.
	db.commit(big).unwrap();
	// F16: let the log worker die FIRST (it needs ~2.5 s for commit 1), then commit: the queue is still above the limit
	thread::sleep(Duration::from_secs(8));
	let issued = Instant::now();
	// 3. The next commit is throttled: the queue holds more than 16 MiB and the log worker is still
	//    busy with commit 1.
	let (tx, rx) = mpsc::channel();
	let committer = {
		let db = db.clone();
		thread::spawn(move || {
			let result = db.commit(late);
			drop(db);
			let _ = tx.send(result);
		})
	};

	// The log worker now fails on commit 1. The error is recorded and every throttled committer
	// has to be released with that error.
	match rx.recv_timeout(WATCHDOG) {
		Ok(Err(Error::Background(e))) => {
			println!("throttled commit released after {:?} with background error: {}", issued.elapsed(), e);
		},
		Ok(Ok(())) => panic!("commit accepted although the log worker can not write the log"),
		Ok(Err(e)) => panic!("unexpected error from throttled commit: {e:?}"),
		Err(_) => panic!(
			"C15 violated: commit still parked on the full queue {:?} after the log worker died",
			WATCHDOG
		),
	}
	committer.join().unwrap();

	// Dropping the handle terminates as well.
	let db = Arc::try_unwrap(db).ok().expect("no other owner left");
	let (tx, rx) = mpsc::channel();
	thread::spawn(move || {
		drop(db);
		let _ = tx.send(());
	});
	rx.recv_timeout(WATCHDOG).expect("C15 violated: drop of the database handle did not terminate");
}
