// C18: while a handle is alive on a directory, every other attempt to open that directory fails
// with a lock error AND CHANGES NOTHING.
//
// `parity_db::migrate(from, to, ..)` looks at `<to.path>/metadata` and, when there is none, writes
// one (with the salt and version of the source) BEFORE it takes any lock (src/migration.rs:50-59).
// Only afterwards does it try `Db::open_or_create(&to)`, which is where the lock is checked.
//
// Schedule (imposed with gdb, see hunt_H2C18_1.gdb; the migrating thread is simply preempted
// between "there is no metadata" and "write the metadata"):
//
//   migrating thread                                 this thread
//   ----------------                                 -----------
//   load_metadata(dst) -> None
//   (preempted at migration.rs:56)
//                                                    holder = Db::open_or_create(dst)   (salt S1)
//                                                    holder.commit(K -> V)
//   create_dir_all(dst); write dst/metadata (salt of the source, S2)     <-- changes the locked dir
//   Db::open(src) ok; Db::open_or_create(dst) -> Err(Locked)
//                                                    drop(holder); reopen dst; get(K) -> None
//
// Without gdb the migrating thread is not preempted, finishes long before the 3 s grace period, and
// the test passes.
//
// Run (plain, passes):
//   cargo test --offline --features instrumentation --test hunt_H2C18_1
// Run (with the schedule, fails):
//   cargo test --offline --features instrumentation --test hunt_H2C18_1 --no-run
//   gdb -batch -x tests/hunt_H2C18_1.gdb --args target/debug/deps/hunt_H2C18_1-<hash> \
//       --test-threads=1 --nocapture

use parity_db::{Db, Options};
use std::{sync::mpsc, time::Duration};

/// Reached once a live handle exists on the destination directory and has accepted a commit.
#[no_mangle]
#[inline(never)]
pub extern "C" fn hunt_h2c18_holder_ready() {
	std::hint::black_box(());
}

const K: &[u8] = b"key written through the live handle";
const V: &[u8] = b"value written through the live handle";

#[test]
fn refused_migrate_leaves_locked_destination_untouched() {
	let tmp = tempfile::tempdir().unwrap();
	let src = tmp.path().join("src");
	let dst = tmp.path().join("dst");

	// A source database with its own salt and one value.
	{
		let mut o = Options::with_columns(&src, 1);
		o.salt = Some([2u8; 32]);
		o.with_background_thread = false;
		let db = Db::open_or_create(&o).unwrap();
		db.commit(vec![(0u8, b"source key".to_vec(), Some(b"source value".to_vec()))]).unwrap();
	}

	let mut dst_opts = Options::with_columns(&dst, 1);
	dst_opts.salt = Some([1u8; 32]);
	dst_opts.with_background_thread = false;

	let (tx, rx) = mpsc::channel();
	let migrator = {
		let src = src.clone();
		let to = Options::with_columns(&dst, 1);
		std::thread::spawn(move || {
			let r = parity_db::migrate(&src, to, false, &[]);
			let _ = tx.send(());
			r
		})
	};

	// Normally the migration is over within milliseconds. If its thread does not get to run for
	// 3 s, go ahead and use the destination directory ourselves.
	let migrate_done_first = rx.recv_timeout(Duration::from_secs(3)).is_ok();

	let holder = Db::open_or_create(&dst_opts).expect("nobody holds dst");
	// From here on a handle is alive on `dst`.
	let metadata_before = std::fs::read(dst.join("metadata")).unwrap();
	holder.commit(vec![(0u8, K.to_vec(), Some(V.to_vec()))]).unwrap();
	hunt_h2c18_holder_ready();

	let migrate_result = migrator.join().unwrap();
	eprintln!("migrate finished before the holder opened: {migrate_done_first}");
	eprintln!("migrate result: {migrate_result:?}");
	if !migrate_done_first {
		// The migration reached its opens while our handle was alive.
		assert!(
			matches!(migrate_result, Err(parity_db::Error::Locked(_))),
			"migrate on a locked destination must fail with a lock error, got {migrate_result:?}"
		);
	}

	// The handle is still alive: nobody else may have changed anything in the directory.
	let metadata_after = std::fs::read(dst.join("metadata")).unwrap();
	let metadata_before = String::from_utf8_lossy(&metadata_before).into_owned();
	let metadata_after = String::from_utf8_lossy(&metadata_after).into_owned();

	// And what was written through the handle is there after a clean close and reopen.
	assert_eq!(holder.get(0, K).unwrap().as_deref(), Some(V));
	drop(holder);
	let mut reopen = Options::with_columns(&dst, 1);
	reopen.with_background_thread = false;
	let db = Db::open(&reopen).unwrap();
	let after_reopen = db.get(0, K).unwrap();
	eprintln!("value committed through the live handle, after close and reopen: {after_reopen:?}");

	assert_eq!(
		metadata_before, metadata_after,
		"dst/metadata was rewritten while a handle was alive on dst (migrate: {migrate_result:?})"
	);
	assert_eq!(
		after_reopen.as_deref(),
		Some(V),
		"value committed through the only live handle is lost after reopen"
	);
}
