set pagination off
set confirm off
set breakpoint pending on
break hunt_h2c04_1_before_create
run
python
import gdb
hunt_base = gdb.selected_frame().read_var("base").string()
print("database directory:", hunt_base)
end
# The creation of the first value table of the btree column is the only caller of write_at in
# `Db::open_or_create` on an empty directory: it writes two slots.
break parity_db::file::TableFile::write_at
# first write_at is about to run
continue
# second write_at is about to run: the process "dies" here.
continue
python
import shutil, os
frame = gdb.selected_frame()
print("stopped in", frame.name(), "before the write at file offset", frame.read_var("offset"))
shutil.copytree(os.path.join(hunt_base, "db"), os.path.join(hunt_base, "image"))
print("crash image taken")
end
delete
continue
