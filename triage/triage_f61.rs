//! C20, finding 2: in-place migration (`overwrite = true`) does not ignore `to.path` as its
//! documentation says ("`overwrite` Ignore path set in `to` and attempt to overwrite data in
//! place"). The path is used as the staging database; a database that already lives there is
//! merged into the result (extra keys, reference counts added up) and loses the migrated column.
//!
//! Scenario: the user first migrates a copy (`overwrite = false`) to try the new configuration,
//! works with the copy, and then migrates the original in place with the very same `Options`.
//!
//! Run: cargo test --offline --test hunt_H3C20_2 -- --test-threads=1

use parity_db::{CompressionType, Db, Operation, Options};
use std::path::Path;

const N: u32 = 200;

fn key(i: u32) -> Vec<u8> {
	let mut k = vec![0x11u8; 32];
	k[..4].copy_from_slice(&i.to_be_bytes());
	k
}
fn value(i: u32) -> Vec<u8> {
	(0..(20 + i * 13 % 700)).map(|j| (j ^ i) as u8).collect()
}
// Keys with i % 4 == 0 are referenced twice.
fn rc(i: u32) -> u32 {
	if i % 4 == 0 { 2 } else { 1 }
}

fn source_options(path: &Path) -> Options {
	let mut o = Options::with_columns(path, 2);
	o.columns[0].preimage = true;
	o.columns[0].ref_counted = true;
	o
}

fn new_options(path: &Path) -> Options {
	let mut o = source_options(path);
	o.columns[0].compression = CompressionType::Lz4;
	o
}

fn fill(o: &Options) {
	let db = Db::open_or_create(o).unwrap();
	let mut ops = Vec::new();
	for i in 0..N {
		ops.push((0u8, Operation::Set(key(i), value(i))));
		if rc(i) == 2 {
			ops.push((0u8, Operation::Reference(key(i))));
		}
		ops.push((1u8, Operation::Set(key(i), value(i))));
	}
	db.commit_changes(ops).unwrap();
}

// (keys of 0..N that return their value in column 0, sorted reference counts of column 0,
//  keys of 0..N that return their value in column 1, does column 0 hold `extra`)
fn content(o: &Options, extra: &[u8]) -> (u32, Vec<u32>, u32, bool) {
	let db = Db::open(o).unwrap();
	let present0 = (0..N).filter(|i| db.get(0, &key(*i)).unwrap() == Some(value(*i))).count() as u32;
	let present1 = (0..N).filter(|i| db.get(1, &key(*i)).unwrap() == Some(value(*i))).count() as u32;
	let mut counts = Vec::new();
	db.iter_column_while(0, |s| {
		counts.push(s.rc);
		true
	})
	.unwrap();
	counts.sort();
	(present0, counts, present1, db.get(0, extra).unwrap().is_some())
}

fn expected_counts() -> Vec<u32> {
	let mut c: Vec<u32> = (0..N).map(rc).collect();
	c.sort();
	c
}

#[test]
fn in_place_migration_ignores_the_path_in_to() {
	let dir = tempfile::tempdir().unwrap();
	let source = source_options(&dir.path().join("original"));
	fill(&source);
	let extra = vec![0xEEu8; 32];
	assert_eq!(content(&source, &extra), (N, expected_counts(), N, false));

	// 1. Try the new configuration on a copy.
	let to = new_options(&dir.path().join("copy"));
	parity_db::migrate(&source.path, to.clone(), false, &[]).unwrap();
	assert_eq!(content(&to, &extra), (N, expected_counts(), N, false), "the copy is fine");
	assert_eq!(content(&source, &extra), (N, expected_counts(), N, false), "the original is untouched");

	// 2. Work with the copy.
	{
		let copy = Db::open(&to).unwrap();
		copy.commit_changes([(0u8, Operation::Set(extra.clone(), b"only in the copy".to_vec()))]).unwrap();
	}
	let copy_before = content(&to, &extra);
	assert_eq!((copy_before.0, copy_before.1.len() as u32, copy_before.2, copy_before.3), (N, N + 1, N, true));

	// 3. Happy with it: migrate the original in place, with the same options. "`overwrite`:
	// Ignore path set in `to` and attempt to overwrite data in place."
	parity_db::migrate(&source.path, to.clone(), true, &[]).unwrap();

	let migrated = new_options(&source.path);
	let (present0, counts, present1, has_extra) = content(&migrated, &extra);
	let mut violations = Vec::new();
	if (present0, present1) != (N, N) {
		violations.push(format!("keys of the source still readable: {present0} / {present1} of {N}"));
	}
	if has_extra {
		violations.push("the migrated original returns a key that was never written to it".into());
	}
	if counts != expected_counts() {
		let sum: u32 = counts.iter().sum();
		let want: u32 = expected_counts().iter().sum();
		violations.push(format!(
			"reference counts of the migrated original: {} values with {sum} references, expected {N} values with {want}",
			counts.len()
		));
	}
	// Not part of the property, but it is what "ignore" means: the other database is left alone.
	let copy_after = content(&to, &extra);
	if copy_after != copy_before {
		violations.push(format!(
			"the database at the ignored path was modified: column 0 returns {} of {N} keys, holds {} values",
			copy_after.0,
			copy_after.1.len()
		));
	}
	assert!(violations.is_empty(), "{violations:#?}");
}

#[test]
fn control_unused_path() {
	let dir = tempfile::tempdir().unwrap();
	let source = source_options(&dir.path().join("original"));
	fill(&source);
	let extra = vec![0xEEu8; 32];
	let to = new_options(&dir.path().join("scratch"));
	parity_db::migrate(&source.path, to, true, &[]).unwrap();
	assert_eq!(content(&new_options(&source.path), &extra), (N, expected_counts(), N, false));
}
