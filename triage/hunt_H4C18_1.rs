// C18 "At most one live handle per database directory", fourth round, finding 1.
//
// An in-place `migrate(from, .., overwrite = true, ..)` removes the directory
// `<from>/overwrite_staging` (left behind by an interrupted in-place migration; it is a complete,
// openable database directory) "under its own lock" and then creates it again with a NEW `lock`
// file. An opener of that directory that has already opened the old `lock` file but has not yet
// called `try_lock_exclusive` on it (src/db.rs, `DbInner::open`) then takes the lock of the
// unlinked inode without any contention, finds the metadata the migration has just written and
// returns a second live handle on the directory on which the migration holds one.
//
// The window (between `open(lock)` and `flock` in `DbInner::open`) contains no call a test could
// slow down, the schedule is imposed with tests/hunt_H4C18_1.gdb:
//
//   cargo test --offline --features instrumentation --test hunt_H4C18_1            # passes
//   cargo test --offline --features instrumentation --test hunt_H4C18_1 --no-run
//   gdb -batch -x tests/hunt_H4C18_1.gdb --args target/debug/deps/hunt_H4C18_1-<hash> \
//       --test-threads=1 --nocapture                                               # fails
//
// What is asserted holds for every schedule of a correct implementation: the opener uses
// `Db::open` (never creates) and keeps its handle until `migrate` has returned, and `migrate`
// opens the staging directory again after its column was copied. So
//  - the opener got its handle first  => the migration is refused with `Locked`;
//  - the migration got its handle first => the opener is refused (`Locked`, or
//    `DatabaseNotFound` while / after the directory is absent);
// both succeeding means two handles were alive on the directory at the same time.

use parity_db::{migrate, CompressionType, Db, Options};
use std::{
	path::{Path, PathBuf},
	sync::mpsc,
};

const WORKTREE_TMP: &str = concat!(env!("CARGO_MANIFEST_DIR"), "/tmp");

#[no_mangle]
#[inline(never)]
pub extern "C" fn hunt_h4c18_opener_about_to_open() {
	std::hint::black_box(());
}

#[no_mangle]
#[inline(never)]
pub extern "C" fn hunt_h4c18_opener_returned() {
	std::hint::black_box(());
}

fn list(dir: &Path) -> Vec<String> {
	match std::fs::read_dir(dir) {
		Ok(rd) => {
			let mut v: Vec<String> =
				rd.map(|e| e.unwrap().file_name().to_string_lossy().into_owned()).collect();
			v.sort();
			v
		},
		Err(e) => vec![format!("<{:?}>", e.kind())],
	}
}

#[test]
fn second_handle_on_staging_directory_of_inplace_migration() {
	std::fs::create_dir_all(WORKTREE_TMP).unwrap();
	let tmp = tempfile::tempdir_in(WORKTREE_TMP).unwrap();
	let from: PathBuf = tmp.path().join("db");
	let staging: PathBuf = from.join("overwrite_staging");

	// The database that is going to be migrated in place.
	let mut source_options = Options::with_columns(&from, 1);
	source_options.salt = Some([7u8; 32]);
	{
		let db = Db::open_or_create(&source_options).unwrap();
		db.commit((0..200u32).map(|i| (0u8, i.to_be_bytes().to_vec(), Some(vec![i as u8; 40]))))
			.unwrap();
	}

	// The new configuration.
	let mut to = Options::with_columns(&from, 1);
	to.columns[0].compression = CompressionType::Lz4;

	// What an in-place migration that was killed half way leaves behind: a complete database
	// directory <from>/overwrite_staging (salt of the source, columns of the destination).
	let mut staging_options = to.clone();
	staging_options.path = staging.clone();
	staging_options.salt = Some([7u8; 32]);
	{
		let db = Db::open_or_create(&staging_options).unwrap();
		db.commit(vec![(0u8, b"left over".to_vec(), Some(b"half migrated".to_vec()))]).unwrap();
	}
	assert!(staging.join("lock").exists() && staging.join("metadata").exists());

	// Somebody has a look at the left-over directory ...
	let (about_to_open, opener_started) = mpsc::channel::<()>();
	let (opener_result, opener_done) = mpsc::channel::<bool>();
	let (release, may_close) = mpsc::channel::<()>();
	let mut inspect = staging_options.clone();
	inspect.salt = None;
	inspect.with_background_thread = false;
	let staging_for_opener = staging.clone();
	let opener = std::thread::spawn(move || {
		about_to_open.send(()).unwrap();
		hunt_h4c18_opener_about_to_open();
		let handle = Db::open(&inspect);
		hunt_h4c18_opener_returned();
		println!("opener: Db::open(<from>/overwrite_staging) -> {:?}", handle.as_ref().map(|_| "Db"));
		println!(
			"opener: directory content when its open returned: {:?}",
			list(&staging_for_opener)
		);
		opener_result.send(handle.is_ok()).unwrap();
		// The handle (if any) stays alive until the migration has returned.
		may_close.recv().unwrap();
		let was_ok = handle.is_ok();
		if let Ok(db) = &handle {
			println!(
				"opener: its handle is still alive; the directory now contains {:?}",
				list(&staging_for_opener)
			);
			let _ = db.get(0, b"left over");
		}
		drop(handle);
		was_ok
	});

	// ... while the migration is started again.
	opener_started.recv().unwrap();
	let migration = migrate(&from, to.clone(), true, &[0]);
	println!("migrate -> {:?}", migration);
	// `migrate` may return before the opener has been scheduled at all.
	let opened = opener_done.recv().unwrap();
	release.send(()).unwrap();
	let opened_at_end = opener.join().unwrap();
	assert_eq!(opened, opened_at_end);

	if migration.is_ok() {
		// The migrated database is fine either way.
		let mut check = to.clone();
		check.salt = None;
		let db = Db::open(&check).unwrap();
		assert_eq!(db.get(0, &7u32.to_be_bytes()).unwrap(), Some(vec![7u8; 40]));
	}

	// `migrate` returned before the opener let go of its handle (it waits for `release`). If the
	// opener got a handle, it either had it before the migration touched the directory (then the
	// migration has to be refused) or it got it while / after the migration held its own.
	assert!(
		!(opened && migration.is_ok()),
		"Db::open(<from>/overwrite_staging) returned a handle that stayed alive while migrate() \
		 opened, used, re-opened and removed the same directory with handles of its own \
		 (migrate -> {:?})",
		migration
	);
}
