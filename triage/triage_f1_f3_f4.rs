use parity_db::{ColumnOptions, Db, NewNode, NodeRef, Operation, Options};
use std::path::Path;

fn opts(p: &Path, cols: Vec<ColumnOptions>) -> Options {
    let mut o = Options::with_columns(p, cols.len() as u8);
    o.columns = cols;
    o.with_background_thread = false;
    o.always_flush = true;
    o
}

fn copy_dir(from: &Path, to: &Path) {
    std::fs::create_dir_all(to).unwrap();
    for e in std::fs::read_dir(from).unwrap() {
        let e = e.unwrap();
        if e.file_name() == "lock" { continue }
        std::fs::copy(e.path(), to.join(e.file_name())).unwrap();
    }
}

#[test]
fn f1_rejected_tx_leaves_trace() {
    let d = tempfile::tempdir().unwrap();
    let o = opts(d.path(), vec![Default::default()]);
    let db = Db::open_or_create(&o).unwrap();
    let r = db.commit_changes(vec![
        (0, Operation::Set(b"k".to_vec(), b"v".to_vec())),
        (0, Operation::Reference(b"k2".to_vec())),
    ]);
    println!("F1 commit result: {:?}", r.as_ref().err());
    assert!(r.is_err());
    println!("F1 get(k) after rejected tx = {:?}", db.get(0, b"k").unwrap());
    db.process_commits().unwrap(); db.flush_logs().unwrap(); db.enact_logs().unwrap();
    println!("F1 get(k) after drain = {:?}", db.get(0, b"k").unwrap());
}

#[test]
fn f3_256_children() {
    let d = tempfile::tempdir().unwrap();
    let mut c = ColumnOptions::default();
    c.multitree = true; c.allow_direct_node_access = true;
    let o = opts(d.path(), vec![c]);
    let db = Db::open_or_create(&o).unwrap();
    let children: Vec<NodeRef> = (0..256).map(|i| NodeRef::New(NewNode { data: vec![i as u8; 4], children: vec![] })).collect();
    let root = NewNode { data: b"root".to_vec(), children };
    let r = db.commit_changes(vec![(0, Operation::InsertTree(b"t".to_vec(), root))]);
    println!("F3 commit result: {:?}", r);
    let got = db.get_root(0, b"t").unwrap().unwrap();
    println!("F3 root data len = {}, children = {}", got.0.len(), got.1.len());
}

#[test]
fn f4_bitflip_panics_open() {
    let d = tempfile::tempdir().unwrap();
    let o = opts(d.path(), vec![Default::default()]);
    let db = Db::open_or_create(&o).unwrap();
    db.commit(vec![(0u8, b"key1".to_vec(), Some(b"value1".to_vec()))]).unwrap();
    db.process_commits().unwrap();
    db.flush_logs().unwrap();
    // crash image: copy the directory now
    let d2 = tempfile::tempdir().unwrap();
    copy_dir(d.path(), d2.path());
    let logp = d2.path().join("log0");
    let mut bytes = std::fs::read(&logp).unwrap();
    println!("F4 log len {} head {:02x?}", bytes.len(), &bytes[..24]);
    // record: [1][id:8] then first action byte at offset 9
    assert!(bytes[9] == 2 || bytes[9] == 3, "action {}", bytes[9]);
    let pos = bytes.iter().enumerate().position(|(i, b)| i >= 9 && *b == 2).unwrap();
    println!("F4 flipping action byte at {} (2 -> 6)", pos);
    bytes[pos] = 6;
    std::fs::write(&logp, &bytes).unwrap();
    let o2 = opts(d2.path(), vec![Default::default()]);
    let r = std::panic::catch_unwind(|| Db::open(&o2).map(|_| ()));
    println!("F4 open on flipped log: panicked = {}", r.is_err());
    std::mem::forget(db);
}
