// H4C13 finding 1: the validation pass of log replay accepts any value-table header
// (`ValueTable::validate_plan`, src/table.rs: "TODO: sanity check last_removed and filled") and any
// tombstone link. On a multitree column `Db::open` walks the free list right after replay
// (`ValueTable::init_table_data`), trusting both: a complete, checksum-valid record makes
// `Db::open` panic (slice index far outside the table mapping) or spin for ever (a tombstone that
// links to itself).
//
// Run: cargo test --offline --features instrumentation --test hunt_H4C13_1
// (the feature is not needed by this file, it only keeps the build identical to the other hunts)

use parity_db::{Db, NewNode, NodeRef, Operation, Options};
use std::path::{Path, PathBuf};

fn crc32(data: &[u8]) -> u32 {
	// CRC-32 (IEEE 802.3), the one `crc32fast` computes.
	let mut crc = 0xffff_ffffu32;
	for b in data {
		crc ^= *b as u32;
		for _ in 0..8 {
			crc = if crc & 1 != 0 { (crc >> 1) ^ 0xedb8_8320 } else { crc >> 1 };
		}
	}
	!crc
}

const BEGIN_RECORD: u8 = 1;
const INSERT_VALUE: u8 = 3;
const END_RECORD: u8 = 4;

struct Record(Vec<u8>);

impl Record {
	fn new(id: u64) -> Record {
		let mut r = vec![BEGIN_RECORD];
		r.extend_from_slice(&id.to_le_bytes());
		Record(r)
	}
	fn value(mut self, col: u8, tier: u8, slot: u64, payload: &[u8]) -> Record {
		self.0.push(INSERT_VALUE);
		self.0.extend_from_slice(&(((col as u16) << 8) | tier as u16).to_le_bytes());
		self.0.extend_from_slice(&slot.to_le_bytes());
		self.0.extend_from_slice(payload);
		self
	}
	fn header(self, col: u8, tier: u8, last_removed: u64, filled: u64) -> Record {
		let mut h = Vec::new();
		h.extend_from_slice(&last_removed.to_le_bytes());
		h.extend_from_slice(&filled.to_le_bytes());
		self.value(col, tier, 0, &h)
	}
	fn tombstone(self, col: u8, tier: u8, slot: u64, next: u64) -> Record {
		let mut t = vec![0xff, 0xff];
		t.extend_from_slice(&next.to_le_bytes());
		self.value(col, tier, slot, &t)
	}
	fn finish(mut self) -> Vec<u8> {
		self.0.push(END_RECORD);
		let crc = crc32(&self.0);
		self.0.extend_from_slice(&crc.to_le_bytes());
		self.0
	}
}

fn workdir(name: &str) -> PathBuf {
	let mut base = PathBuf::from(env!("CARGO_MANIFEST_DIR"));
	base.push("tmp");
	std::fs::create_dir_all(&base).unwrap();
	let dir = base.join(format!("hunt_H4C13_1_{}_{}", name, std::process::id()));
	let _ = std::fs::remove_dir_all(&dir);
	dir
}

fn options(path: &Path) -> Options {
	let mut o = Options::with_columns(path, 1);
	o.columns[0].multitree = true;
	o.columns[0].allow_direct_node_access = true;
	o
}

// A small multitree database, closed cleanly: no log files are left.
fn make_db(path: &Path) {
	let db = Db::open_or_create(&options(path)).unwrap();
	let tree = NewNode {
		data: b"root data, long enough".to_vec(),
		children: vec![NodeRef::New(NewNode { data: b"child".to_vec(), children: vec![] })],
	};
	db.commit_changes(vec![(0u8, Operation::InsertTree(b"tree-one".to_vec(), tree))]).unwrap();
	drop(db);
	for e in std::fs::read_dir(path).unwrap() {
		let name = e.unwrap().file_name().into_string().unwrap();
		assert!(!name.starts_with("log"), "clean shutdown left {name}");
	}
}

// Ok(()) - opened (or refused with an error) and the tree is still readable when it opened.
fn open_and_check(path: &Path) -> Result<(), String> {
	let o = options(path);
	let r = std::panic::catch_unwind(|| match Db::open(&o) {
		Ok(db) => {
			let root = db.get_root(0, b"tree-one").unwrap();
			assert!(root.is_some(), "committed tree lost");
		},
		// Refusing the database with an error is acceptable, the statement only rules out a panic.
		Err(e) => eprintln!("open returned an error: {e:?}"),
	});
	r.map_err(|p| {
		p.downcast_ref::<String>()
			.cloned()
			.or_else(|| p.downcast_ref::<&str>().map(|s| s.to_string()))
			.unwrap_or_else(|| "panic".into())
	})
}

// Tier 200: a table the database has never written to (entry size 9085), so that nothing the
// record says collides with the committed tree.
const TIER: u8 = 200;

#[test]
fn control_sane_header_record_is_replayed() {
	let dir = workdir("control");
	make_db(&dir);
	let rec = Record::new(1).header(0, TIER, 0, 1).finish();
	std::fs::write(dir.join("log0"), rec).unwrap();
	open_and_check(&dir).expect("a harmless checksum-valid record must not disturb open");
	let _ = std::fs::remove_dir_all(&dir);
}

#[test]
fn header_with_free_list_head_outside_the_table_makes_open_panic() {
	let dir = workdir("oob");
	make_db(&dir);
	// last_removed < filled, the only thing that is ever checked; both far beyond the file.
	let rec = Record::new(1).header(0, TIER, 1 << 40, 1 << 41).finish();
	std::fs::write(dir.join("log0"), rec).unwrap();
	let r = open_and_check(&dir);
	let _ = std::fs::remove_dir_all(&dir);
	if let Err(p) = r {
		panic!("Db::open panicked on a checksum-valid log record: {p}");
	}
}

#[test]
fn tombstone_linked_to_itself_makes_open_spin() {
	let dir = workdir("cycle");
	make_db(&dir);
	let rec = Record::new(1).tombstone(0, TIER, 1, 1).header(0, TIER, 1, 2).finish();
	std::fs::write(dir.join("log0"), rec).unwrap();
	let (tx, rx) = std::sync::mpsc::channel();
	let d = dir.clone();
	// Not joined: when the bug is present the thread never comes back (it dies with the test
	// process; its memory use grows by a few MB per minute only).
	std::thread::spawn(move || {
		let _ = tx.send(open_and_check(&d));
	});
	match rx.recv_timeout(std::time::Duration::from_secs(20)) {
		Ok(r) => {
			let _ = std::fs::remove_dir_all(&dir);
			r.expect("open panicked");
		},
		Err(_) => panic!("Db::open did not return within 20 s on a checksum-valid log record"),
	}
}

// Same as the out-of-range case, but the free-list head lies behind the end of the (256 KB) table
// file and inside the 1 GB address reservation of its mapping: the read in `init_table_data` is a
// SIGBUS, the process dies inside `Db::open`. Ignored by default because it takes the test
// harness down with it. Run it alone:
// cargo test --offline --features instrumentation --test hunt_H4C13_1 -- --ignored
#[test]
#[ignore]
fn header_with_free_list_head_behind_the_end_of_the_file_kills_the_process() {
	let dir = workdir("sigbus");
	make_db(&dir);
	// entry size of tier 200 is 9085: slot 1000 starts 9 MB into a 256 KB file.
	let rec = Record::new(1).header(0, TIER, 1000, 1001).finish();
	std::fs::write(dir.join("log0"), rec).unwrap();
	let r = open_and_check(&dir);
	let _ = std::fs::remove_dir_all(&dir);
	if let Err(p) = r {
		panic!("Db::open panicked on a checksum-valid log record: {p}");
	}
}
