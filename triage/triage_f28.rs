// HC12 finding 2: log files found at open are replayed into the tables without being synced first.
//
// Run with:
//   cargo test --offline --features instrumentation --test hunt_HC12_2 -- --nocapture
//
// History (default options: sync_wal = sync_data = true):
//   1. T0 = {KA} is committed and carried through the whole pipeline (logged, synced, enacted,
//      tables flushed, log truncated).
//   2. T1 = {K1, K2} is committed and written to the log file (`process_commits`), the log file has
//      NOT been synced yet.
//   3. The `Db` is dropped while I/O fails (the shutdown code gives up at its first I/O operation,
//      exactly as it does when the process is killed): the log file with T1 stays in the directory,
//      its bytes were never the subject of an fdatasync/fsync.
//   4. The database is opened again. `Db::open` replays the log file it finds: T1 is written into
//      the memory mapped index and value table. Nothing syncs the log file before that.
//   5. Power is lost at the instant `Db::open` issues its first msync (tables dirty, nothing synced
//      yet). Of the unsynced pages the kernel had already written back the value table and the
//      index page of K1, not the index page of K2; of the never synced log file nothing reached the
//      disk. All of that is within the quantifier of the property (arbitrary subset of unsynced
//      pages, arbitrary prefix of the unsynced log tail).
//   6. Recovery from that disk image: T0 is there, K1 of T1 is there, K2 of T1 is not. T1 is torn;
//      the state is not a prefix of the committed transactions.
//
// The test process interposes msync/fsync/fdatasync (symbols of the test binary take precedence
// over libc) to know which bytes of which file are durable. Nothing in src/ is modified.

use parity_db::{Db, Options};
use std::{
	collections::HashMap,
	os::raw::{c_int, c_void},
	path::{Path, PathBuf},
	sync::Mutex,
};

const PAGE: usize = 4096;

struct Shadow {
	root: PathBuf,
	// File content as of the last msync/fsync/fdatasync that covered each byte.
	durable: HashMap<PathBuf, Vec<u8>>,
	// Number of fsync/fdatasync calls seen per file.
	syncs: HashMap<PathBuf, usize>,
	// When set: at the next msync build the disk image a power loss would leave at that instant.
	crash_at_next_msync: Option<(PathBuf, fn(&str, usize) -> bool)>,
	crash_taken: bool,
}

static SHADOW: Mutex<Option<Shadow>> = Mutex::new(None);

impl Shadow {
	fn tracked(&self, path: &Path) -> bool {
		path.starts_with(&self.root)
	}

	fn file_synced(&mut self, path: PathBuf) {
		if !self.tracked(&path) {
			return
		}
		if let Ok(content) = std::fs::read(&path) {
			*self.syncs.entry(path.clone()).or_default() += 1;
			self.durable.insert(path, content);
		}
	}

	fn range_synced(&mut self, path: PathBuf, start: usize, end: usize) {
		if !self.tracked(&path) {
			return
		}
		let Ok(content) = std::fs::read(&path) else { return };
		let end = end.min(content.len());
		if start >= end {
			return
		}
		let durable = self.durable.entry(path).or_default();
		if durable.len() < content.len() {
			durable.resize(content.len(), 0);
		}
		durable[start..end].copy_from_slice(&content[start..end]);
	}

	// The directory as a power loss leaves it: log files keep what was synced and nothing of the
	// unsynced tail; every page of a table file is either its durable or its current version.
	fn crash_image(&self, dest: &Path, page_reached_disk: fn(&str, usize) -> bool) {
		std::fs::create_dir_all(dest).unwrap();
		for entry in std::fs::read_dir(&self.root).unwrap() {
			let entry = entry.unwrap();
			let name = entry.file_name().to_str().unwrap().to_string();
			if name == "lock" {
				continue
			}
			let path = entry.path();
			let current = std::fs::read(&path).unwrap();
			let image = if name.starts_with("log") {
				self.durable.get(&path).cloned().unwrap_or_default()
			} else if name.starts_with("index_") ||
				name.starts_with("table_") ||
				name.starts_with("refcount_")
			{
				let mut image = vec![0u8; current.len()];
				if let Some(durable) = self.durable.get(&path) {
					let n = durable.len().min(image.len());
					image[..n].copy_from_slice(&durable[..n]);
				}
				for page in 0..(current.len() + PAGE - 1) / PAGE {
					if page_reached_disk(&name, page) {
						let range = page * PAGE..((page + 1) * PAGE).min(current.len());
						image[range.clone()].copy_from_slice(&current[range]);
					}
				}
				image
			} else {
				current
			};
			std::fs::write(dest.join(&name), image).unwrap();
		}
	}
}

fn on_fd_synced(fd: c_int) {
	let mut guard = SHADOW.lock().unwrap();
	if let Some(shadow) = guard.as_mut() {
		if let Ok(path) = std::fs::read_link(format!("/proc/self/fd/{fd}")) {
			shadow.file_synced(path);
		}
	}
}

// The file ranges behind the mapped range [addr, addr + len).
fn mapped_files(addr: usize, len: usize) -> Vec<(PathBuf, usize, usize)> {
	let mut result = Vec::new();
	let maps = std::fs::read_to_string("/proc/self/maps").unwrap();
	for line in maps.lines() {
		let mut fields = line.splitn(6, ' ');
		let range = fields.next().unwrap();
		let _perms = fields.next();
		let offset = usize::from_str_radix(fields.next().unwrap(), 16).unwrap();
		let _dev = fields.next();
		let _inode = fields.next();
		let path = fields.next().unwrap_or("").trim();
		if !path.starts_with('/') {
			continue
		}
		let (start, end) = range.split_once('-').unwrap();
		let start = usize::from_str_radix(start, 16).unwrap();
		let end = usize::from_str_radix(end, 16).unwrap();
		let from = start.max(addr);
		let to = end.min(addr + len);
		if from < to {
			result.push((PathBuf::from(path), offset + (from - start), offset + (to - start)));
		}
	}
	result
}

fn before_msync() {
	let mut guard = SHADOW.lock().unwrap();
	if let Some(shadow) = guard.as_mut() {
		if let Some((dest, chooser)) = shadow.crash_at_next_msync.take() {
			shadow.crash_image(&dest, chooser);
			shadow.crash_taken = true;
		}
	}
}

fn after_msync(addr: usize, len: usize) {
	let mut guard = SHADOW.lock().unwrap();
	if let Some(shadow) = guard.as_mut() {
		for (path, start, end) in mapped_files(addr, len) {
			shadow.range_synced(path, start, end);
		}
	}
}

#[no_mangle]
pub unsafe extern "C" fn msync(addr: *mut c_void, len: usize, flags: c_int) -> c_int {
	before_msync();
	let r = libc::syscall(libc::SYS_msync, addr, len, flags) as c_int;
	if r == 0 {
		after_msync(addr as usize, len);
	}
	r
}

#[no_mangle]
pub unsafe extern "C" fn fsync(fd: c_int) -> c_int {
	let r = libc::syscall(libc::SYS_fsync, fd) as c_int;
	if r == 0 {
		on_fd_synced(fd);
	}
	r
}

#[no_mangle]
pub unsafe extern "C" fn fdatasync(fd: c_int) -> c_int {
	let r = libc::syscall(libc::SYS_fdatasync, fd) as c_int;
	if r == 0 {
		on_fd_synced(fd);
	}
	r
}

fn key(chunk: u16, n: u8) -> [u8; 32] {
	// With a zero salt a uniform key is its own hash: the first 16 bits select the index chunk.
	let mut k = [n; 32];
	k[0..2].copy_from_slice(&chunk.to_be_bytes());
	k
}

// Index file layout: 16 KiB of meta data, then 512 byte chunks.
const fn index_page(chunk: u16) -> usize {
	(16 * 1024 + chunk as usize * 512) / PAGE
}

const CHUNK_A: u16 = 0x0000;
const CHUNK_1: u16 = 0x0001;
const CHUNK_2: u16 = 0x8000;

// Which unsynced pages the kernel happened to write back before the power loss.
fn page_reached_disk(name: &str, page: usize) -> bool {
	if name.starts_with("table_") {
		true
	} else if name.starts_with("index_") {
		page == index_page(CHUNK_1)
	} else {
		false
	}
}

fn options(path: &Path) -> Options {
	let mut options = Options::with_columns(path, 1);
	options.columns[0].uniform = true;
	options.salt = Some([0u8; 32]);
	options.with_background_thread = false;
	assert!(options.sync_wal && options.sync_data);
	options
}

#[test]
fn unsynced_log_is_replayed_into_the_tables_at_open() {
	let tmp = tempfile::tempdir().unwrap();
	let path = tmp.path().canonicalize().unwrap().join("db");
	let crash_path = tmp.path().canonicalize().unwrap().join("after_power_loss");
	*SHADOW.lock().unwrap() = Some(Shadow {
		root: path.clone(),
		durable: HashMap::new(),
		syncs: HashMap::new(),
		crash_at_next_msync: None,
		crash_taken: false,
	});
	assert_ne!(index_page(CHUNK_1), index_page(CHUNK_2));
	assert_eq!(index_page(CHUNK_A), index_page(CHUNK_1));

	let ka = key(CHUNK_A, 0xaa);
	let k1 = key(CHUNK_1, 0x11);
	let k2 = key(CHUNK_2, 0x22);
	let value = |n: u8| vec![n; 40];

	let log_file;
	{
		let db = Db::open_or_create(&options(&path)).unwrap();
		// T0, all the way to the tables, flushed, log truncated.
		db.commit(vec![(0u8, ka.to_vec(), Some(value(0xa0)))]).unwrap();
		db.process_commits().unwrap();
		db.flush_logs().unwrap();
		db.enact_logs().unwrap();
		db.clean_logs().unwrap();

		// T1: written to the log file, the log file is not synced.
		db.commit(vec![
			(0u8, k1.to_vec(), Some(value(0x01))),
			(0u8, k2.to_vec(), Some(value(0x02))),
		])
		.unwrap();
		db.process_commits().unwrap();
		assert_eq!(db.get(0, &k1).unwrap(), Some(value(0x01)));
		assert_eq!(db.get(0, &k2).unwrap(), Some(value(0x02)));

		// The shutdown gives up at its first I/O operation.
		parity_db::set_number_of_allowed_io_operations(0);
		drop(db);
		parity_db::set_number_of_allowed_io_operations(usize::MAX);

		let logs: Vec<_> = std::fs::read_dir(&path)
			.unwrap()
			.map(|e| e.unwrap())
			.filter(|e| e.file_name().to_str().unwrap().starts_with("log"))
			.filter(|e| e.metadata().unwrap().len() > 0)
			.map(|e| e.path())
			.collect();
		assert_eq!(logs.len(), 1, "exactly one log file with the record of T1 is left behind");
		log_file = logs[0].clone();
		let guard = SHADOW.lock().unwrap();
		let shadow = guard.as_ref().unwrap();
		assert!(
			shadow.durable.get(&log_file).map_or(true, |d| d.is_empty()),
			"precondition: no byte of the log record of T1 was ever synced"
		);
	}

	// Open again; the power is lost when `Db::open` issues its first msync.
	let syncs_before = SHADOW.lock().unwrap().as_ref().unwrap().syncs.get(&log_file).copied();
	SHADOW.lock().unwrap().as_mut().unwrap().crash_at_next_msync =
		Some((crash_path.clone(), page_reached_disk));
	{
		let db = Db::open(&options(&path)).unwrap();
		// Without a power loss the replay recovered T1.
		assert_eq!(db.get(0, &k1).unwrap(), Some(value(0x01)));
		assert_eq!(db.get(0, &k2).unwrap(), Some(value(0x02)));
	}
	{
		let guard = SHADOW.lock().unwrap();
		let shadow = guard.as_ref().unwrap();
		assert!(shadow.crash_taken, "Db::open flushed the tables");
		eprintln!(
			"fsync/fdatasync calls on {} before the reopen: {:?}, after: {:?}",
			log_file.display(),
			syncs_before,
			shadow.syncs.get(&log_file)
		);
	}
	*SHADOW.lock().unwrap() = None;

	// Recovery from what the power loss left on the disk.
	let db = Db::open(&options(&crash_path)).unwrap();
	let a = db.get(0, &ka).unwrap();
	let r1 = db.get(0, &k1).unwrap();
	let r2 = db.get(0, &k2).unwrap();
	eprintln!(
		"after the power loss: KA {}, K1 {}, K2 {}",
		if a.is_some() { "present" } else { "absent" },
		if r1.is_some() { "present" } else { "absent" },
		if r2.is_some() { "present" } else { "absent" },
	);
	assert_eq!(a, Some(value(0xa0)), "T0 was synced and flushed, it must survive");
	if let Some(v) = &r1 {
		assert_eq!(v, &value(0x01));
	}
	if let Some(v) = &r2 {
		assert_eq!(v, &value(0x02));
	}
	assert_eq!(
		r1.is_some(),
		r2.is_some(),
		"transaction T1 = {{K1, K2}} is torn: the tables were modified on behalf of a log record whose bytes were never synced"
	);
}
