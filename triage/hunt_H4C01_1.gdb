# Schedule for tests/hunt_H4C01_1.rs. Run from the crate root:
#
#   cargo test --offline --features instrumentation --test hunt_H4C01_1 --no-run
#   gdb -batch -x tests/hunt_H4C01_1.gdb --args \
#       $(ls -t target/debug/deps/hunt_H4C01_1-* | grep -v '\.d$' | head -1) \
#       --test-threads=1 --nocapture
#
# 1. the reader ("victim") is stopped in IndexTable::find_entry_sse2 after the SIMD compare found
#    the matching position in the mapped index chunk and before the entry is read again;
# 2. only the "logger" thread runs: Db::process_commits plans and logs the removal of the
#    neighbouring key, up to the point where it would wait for the commit overlay lock;
# 3. only the "enactor" thread runs: flush_logs + enact_logs apply the record to the index file;
# 4. everything is released. The victim reads an empty entry and Db::get returns None.

set pagination off
set confirm off
set breakpoint pending on
set print thread-events off

python
import gdb

def line_of(path, needle, after=None):
    seen_after = after is None
    with open(path) as f:
        for n, l in enumerate(f, 1):
            if not seen_after:
                if after in l:
                    seen_after = True
                continue
            if needle in l:
                return n
    raise RuntimeError("no line with %r in %s" % (needle, path))

def thread_named(name):
    for t in gdb.selected_inferior().threads():
        if t.name == name:
            return t
    raise RuntimeError("no thread named %s" % name)

# The line that follows the SIMD compare (`if cmp != 0 {`): the match is known, the entry has not been
# read again yet. (read_entry is inlined: a breakpoint on the `return` line itself is placed after it.)
window = line_of("src/index.rs", "let position = i + skip as usize + (cmp.trailing_zeros() as usize) / 4;")
lock = line_of("src/db.rs", "let mut overlay = self.commit_overlay.write();",
               after="fn process_commits")

gdb.execute("break hunt_h4c01_victim_start")
gdb.execute("run")

victim = gdb.selected_thread()
print("[gdb] victim is thread %d (%s)" % (victim.num, victim.name))
gdb.execute("break src/index.rs:%d thread %d" % (window, victim.num))
gdb.execute("continue")
print("[gdb] victim stopped inside the window:")
gdb.execute("bt 6")

gdb.execute("set scheduler-locking on")

gdb.execute("break src/db.rs:%d" % lock)
thread_named("logger").switch()
gdb.execute("continue")
print("[gdb] logger has logged the removal and is about to wait for the commit overlay")

gdb.execute("break hunt_h4c01_enacted")
thread_named("enactor").switch()
gdb.execute("continue")
print("[gdb] enactor has applied the record to the tables")

gdb.execute("delete")
gdb.execute("set scheduler-locking off")
gdb.execute("continue")
end
