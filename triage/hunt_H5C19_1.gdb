# Schedule for tests/hunt_H5C19_1.rs (the test passes when it is run without gdb).
#   cargo test --offline --features instrumentation --test hunt_H5C19_1 --no-run
#   gdb -batch -x tests/hunt_H5C19_1.gdb --args target/debug/deps/hunt_H5C19_1-<hash> --test-threads=1 --nocapture
# Run from the crate root (breakpoints are given as src/<file>:<line>).
set pagination off
set confirm off
set breakpoint pending on
set print thread-events off
handle SIGSEGV nostop noprint pass
break hunt_reader_start
run
python
import gdb

def thread_named(name):
    for t in gdb.selected_inferior().threads():
        if t.name == name:
            return t
    raise RuntimeError("no thread " + name)

def go(cmd):
    print(">>> " + cmd)
    gdb.execute(cmd)

# the reader is about to look its key up
go("set scheduler-locking on")
go("tbreak src/index.rs:364")
go("continue")
# the reader has found nothing for the page in the log overlay and is about to read the mapped page
go("set language c")
go("set var ((unsigned int*)&HUNT_GO)[0] = 1")
go("set language auto")
thread_named("hunt_T1").switch()
go("tbreak src/db.rs:1005")
go("continue")
# record 2 (removal of J) is logged
go("set language c")
go("set var ((unsigned int*)&HUNT_GO)[1] = 1")
go("set language auto")
thread_named("hunt_T2").switch()
go("tbreak src/index.rs:568")
go("continue")
# the enact stage is about to copy the entry of slot 0 from the log reader into the mapped page
go("catch syscall read")
go("continue")
# the first half is copied, the log reader refills its buffer
go("delete")
thread_named("hunt_R").switch()
go("break hunt_reader_done")
go("continue")
go("delete")
go("set scheduler-locking off")
go("continue")
end
quit
