// C16 hunt, finding 3.
//
// The metadata file is rewritten in place (`std::fs::write`: open with O_TRUNC, then write). When
// the write fails (EIO, ENOSPC, ...) the old content is already gone: `Db::add_column` returns the
// error, but the `metadata` file is left empty and the database - including its randomly
// generated salt, without which no hashed key can ever be found again - can not be opened any
// more after the fault is gone. All committed data is lost.
//
// The failure is injected by interposing `write(2)` in this test binary: once armed every write to
// a file fails with EIO, until the "restart".
//
// Run with:
//   cargo test --offline --features instrumentation --test hunt_HC16_3 -- --nocapture
#![cfg(all(feature = "instrumentation", target_os = "linux"))]

use parity_db::{ColumnOptions, Db, Options};
use std::{
	path::Path,
	sync::atomic::{AtomicBool, AtomicUsize, Ordering},
};

static ARMED: AtomicBool = AtomicBool::new(false);
static FAILED_CALLS: AtomicUsize = AtomicUsize::new(0);

#[no_mangle]
pub unsafe extern "C" fn write(
	fd: libc::c_int,
	buf: *const libc::c_void,
	count: libc::size_t,
) -> libc::ssize_t {
	if fd > 2 && ARMED.load(Ordering::SeqCst) {
		FAILED_CALLS.fetch_add(1, Ordering::SeqCst);
		*libc::__errno_location() = libc::EIO;
		return -1
	}
	libc::syscall(libc::SYS_write, fd, buf, count) as libc::ssize_t
}

fn options(path: &Path, columns: u8) -> Options {
	let mut o = Options::with_columns(path, columns);
	o.salt = None; // the default: a random salt is generated and kept in the metadata file only
	o.stats = false;
	o
}

fn key(i: u32) -> Vec<u8> {
	format!("key-{i}").into_bytes()
}

fn value(i: u32) -> Vec<u8> {
	format!("value-{i}").into_bytes()
}

#[test]
fn failed_metadata_write_destroys_database() {
	let _ = env_logger::try_init();
	let tmp = tempfile::tempdir().unwrap();
	let dir = tmp.path();

	// A database with committed data, closed cleanly (everything is in the tables, no logs left).
	{
		let db = Db::open_or_create(&options(dir, 2)).unwrap();
		for i in 0..10 {
			db.commit(vec![(0u8, key(i), Some(value(i))), (1u8, key(i), Some(value(i)))]).unwrap();
		}
	}
	{
		let db = Db::open(&options(dir, 2)).unwrap();
		for i in 0..10 {
			assert_eq!(db.get(0, &key(i)).unwrap(), Some(value(i)));
		}
	}
	let metadata_before = std::fs::read_to_string(dir.join("metadata")).unwrap();
	assert!(metadata_before.contains("salt="));

	// From here on every write(2) fails.
	ARMED.store(true, Ordering::SeqCst);
	let mut new_options = options(dir, 2);
	let r = Db::add_column(&mut new_options, ColumnOptions::default());
	assert!(r.is_err(), "the failure must be reported");
	assert!(FAILED_CALLS.load(Ordering::SeqCst) >= 1);
	// "Restart": the fault is gone.
	ARMED.store(false, Ordering::SeqCst);

	let metadata_after = std::fs::read_to_string(dir.join("metadata")).unwrap();
	println!("metadata after the failed add_column: {metadata_after:?}");

	// Reopen. The column was not added (add_column failed), so the old configuration applies; accept
	// the new one as well.
	let db = match Db::open(&options(dir, 2)) {
		Ok(db) => db,
		Err(e2) => match Db::open(&options(dir, 3)) {
			Ok(db) => db,
			Err(e3) => panic!(
				"database can not be reopened after a failed metadata write: with 2 columns: {e2:?}; \
				 with 3 columns: {e3:?}; metadata file is now {metadata_after:?}, was {metadata_before:?}"
			),
		},
	};
	for i in 0..10 {
		assert_eq!(db.get(0, &key(i)).unwrap(), Some(value(i)), "committed data lost");
		assert_eq!(db.get(1, &key(i)).unwrap(), Some(value(i)), "committed data lost");
	}
}
