// C02 hunt, round 2, finding 1.
//
// A log record that makes a hash index grow carries index actions for two (or more) index
// tables: the old one (`i00-16`) and the new one (`i00-17`). `LogChange::flush_to_file` writes
// them in the iteration order of a `HashMap`, so about every second record has the action for
// the NEWER table first. Index files are created lazily, by the first action enacted into them.
// If the column is new (no `index_00_16` yet) and the process stops after the `i00-17` action
// was enacted (file `index_00_17` created) and before the `i00-16` action is, the directory has
// `index_00_17` only. On reopen `open_index` takes i00-17 as the current index with an empty
// reindex queue, and both `HashColumn::validate_plan` and `HashColumn::enact_plan` treat the
// `i00-16` action of the very same record as "insertion into a previously dropped index" and
// skip it. The record is replayed without its 64 index entries: the transaction is torn.
//
// The history is ONE commit of 65 keys that fall into one chunk of the 16 bit index.
// The crash is a stop during recovery (the statement covers "crashes during recovery itself"):
// image = synced log + no tables, first `Db::open` is interrupted after N file operations
// (every N is tried), second `Db::open` must expose all 65 keys or none.
//
// Run: cargo test --offline --features instrumentation --test hunt_H2C02_1 -- --nocapture --test-threads=1

#![cfg(feature = "instrumentation")]

use parity_db::{set_number_of_allowed_io_operations, ColumnOptions, Db, Options};
use std::path::Path;

fn options(path: &Path) -> Options {
	let mut o = Options::with_columns(path, 1);
	o.columns[0] = ColumnOptions { uniform: true, ..Default::default() };
	o.salt = Some([0u8; 32]);
	o.stats = false;
	o.with_background_thread = false;
	o.always_flush = false;
	o
}

// All keys share the first 17 bits: same chunk in `i00-16` (and in `i00-17`).
fn key(i: u8) -> [u8; 32] {
	let mut k = [0u8; 32];
	k[0] = 0x12;
	k[1] = 0x34;
	k[2] = 0x00;
	k[3] = i;
	k[8] = 0xaa;
	k[31] = i;
	k
}

fn value(i: u8) -> Vec<u8> {
	vec![i, 0x55, i, 0x55]
}

fn copy_image(from: &Path, to: &Path) {
	std::fs::create_dir_all(to).unwrap();
	for e in std::fs::read_dir(from).unwrap() {
		let e = e.unwrap();
		let name = e.file_name();
		if name == "lock" {
			continue
		}
		std::fs::copy(e.path(), to.join(name)).unwrap();
	}
}

fn files(dir: &Path) -> Vec<String> {
	let mut v: Vec<String> = std::fs::read_dir(dir)
		.unwrap()
		.map(|e| e.unwrap().file_name().to_string_lossy().to_string())
		.filter(|n| n != "lock")
		.collect();
	v.sort();
	v
}

// Index bits of the tables named by the leading INSERT_INDEX actions of the first record of a
// log file, in file order.
fn index_action_order(log: &Path) -> Vec<u8> {
	let b = std::fs::read(log).unwrap();
	assert_eq!(b[0], 1, "BEGIN_RECORD");
	let mut p = 9;
	let mut order = Vec::new();
	while b[p] == 2 {
		let table = u16::from_le_bytes([b[p + 1], b[p + 2]]);
		let mask = u64::from_le_bytes(b[p + 11..p + 19].try_into().unwrap());
		order.push((table & 0xff) as u8);
		p += 1 + 2 + 8 + 8 + 8 * mask.count_ones() as usize;
	}
	order
}

// Builds the crash image "record synced in the WAL, nothing enacted" for one commit of `n` keys.
// With `want_newer_first` the history is repeated on fresh directories until the record happens
// to name the newer index table first (one in two).
fn build_image(n: u8, want_newer_first: bool, image: &Path) -> Vec<u8> {
	build_image_after(0, n, want_newer_first, image)
}

// Same, but the keys `0..pre` are committed, enacted and their log cleaned before the commit of
// the keys `pre..n` (the column is not new, `index_00_16` exists in the image).
fn build_image_after(pre: u8, n: u8, want_newer_first: bool, image: &Path) -> Vec<u8> {
	let mut order = Vec::new();
	for attempt in 0..64 {
		let dir = tempfile::tempdir().unwrap();
		let db = Db::open_or_create(&options(dir.path())).unwrap();
		if pre > 0 {
			db.commit((0..pre).map(|i| (0u8, key(i).to_vec(), Some(value(i))))).unwrap();
			db.process_commits().unwrap();
			db.flush_logs().unwrap();
			db.enact_logs().unwrap();
			db.clean_logs().unwrap();
		}
		db.commit((pre..n).map(|i| (0u8, key(i).to_vec(), Some(value(i))))).unwrap();
		db.process_commits().unwrap();
		db.flush_logs().unwrap();
		let _ = std::fs::remove_dir_all(image);
		copy_image(dir.path(), image);
		drop(db);
		let log = files(image).into_iter().find(|f| f.starts_with("log")).expect("a log file");
		order = index_action_order(&image.join(log));
		println!("attempt {attempt}: image {:?}, index actions name bits {:?}", files(image), order);
		// Favourable: some table is named before a table with fewer bits that has no file yet.
		let pos = |bits: u8| order.iter().position(|b| *b == bits);
		let newer_first = if pre == 0 { pos(17) < pos(16) } else { pos(18) < pos(17) };
		if !want_newer_first || newer_first {
			break
		}
	}
	order
}

// Stops the first recovery after every possible number of file operations, then recovers again.
fn crash_during_recovery_everywhere(image: &Path, n: u8) -> Vec<String> {
	crash_during_recovery_everywhere_after(image, 0, n)
}

fn crash_during_recovery_everywhere_after(image: &Path, pre: u8, n: u8) -> Vec<String> {
	let mut bad = Vec::new();
	for allowed in 0..100_000usize {
		let dir = tempfile::tempdir().unwrap();
		copy_image(image, dir.path());
		set_number_of_allowed_io_operations(allowed);
		let first = Db::open(&options(dir.path()));
		set_number_of_allowed_io_operations(usize::MAX);
		let interrupted = first.is_err();
		drop(first);
		let after_crash = files(dir.path());

		let db = match Db::open(&options(dir.path())) {
			Ok(db) => db,
			Err(e) => {
				bad.push(format!("stop after {allowed} ops: image {after_crash:?}: reopen failed: {e}"));
				continue
			},
		};
		let mut present = 0;
		let mut wrong = 0;
		for i in 0..pre {
			if db.get(0, &key(i)).unwrap() != Some(value(i)) {
				wrong += 1;
			}
		}
		let n = n - pre;
		for i in pre..pre + n {
			match db.get(0, &key(i)).unwrap() {
				Some(v) if v == value(i) => present += 1,
				Some(_) => wrong += 1,
				None => (),
			}
		}
		drop(db);
		if wrong != 0 || (present != 0 && present != n as usize) {
			bad.push(format!(
				"stop after {allowed} ops: image {after_crash:?}: TORN, {present} of {n} keys present, {wrong} wrong"
			));
		}
		if !interrupted {
			println!("recovery needs {allowed} file operations");
			break
		}
	}
	bad
}

#[test]
fn control_no_index_growth_every_crash_point_recovers_the_commit() {
	let image = tempfile::tempdir().unwrap();
	let order = build_image(64, false, image.path());
	assert_eq!(order, vec![16]);
	let bad = crash_during_recovery_everywhere(image.path(), 64);
	assert!(bad.is_empty(), "{}", bad.join("\n"));
}

#[test]
fn index_growth_in_first_record_every_crash_point_recovers_the_commit() {
	let image = tempfile::tempdir().unwrap();
	let order = build_image(65, true, image.path());
	println!("index actions of the record, in log order: {order:?}");
	let bad = crash_during_recovery_everywhere(image.path(), 65);
	for b in &bad {
		println!("{b}");
	}
	assert!(bad.is_empty(), "{} crash points violate atomicity, first: {}", bad.len(), bad[0]);
}

// The column is not new: `index_00_16` exists. One commit overflows the chunk of `i00-16` and then
// the chunk of `i00-17`, its record names `i00-16`, `i00-17` and `i00-18`. A stop after the
// `i00-18` action and before the `i00-17` action leaves `index_00_16` + `index_00_18`; the
// `i00-17` action (64 entries) is then skipped on every replay.
#[test]
fn double_index_growth_in_one_record_every_crash_point_recovers_the_commit() {
	let image = tempfile::tempdir().unwrap();
	let order = build_image_after(1, 130, true, image.path());
	println!("index actions of the record, in log order: {order:?}");
	let bad = crash_during_recovery_everywhere_after(image.path(), 1, 130);
	for b in &bad {
		println!("{b}");
	}
	assert!(bad.is_empty(), "{} crash points violate atomicity, first: {}", bad.len(), bad[0]);
}
