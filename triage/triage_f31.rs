// HC17 finding 2: the number of columns is never checked against the range of `ColId` (u8).
// `Db::add_column` happily creates a 257th column (index 256). `Db::drop_last_column` then
// computes the index of the last column as `(len - 1) as u8`, i.e. 256 -> 0, and deletes every
// file of column 0 - a column that is neither the last one nor the one being administered.
//
// A correct implementation either refuses to add the 257th column (then nothing may change) or
// handles it without touching column 0.
//
// Run: cargo test --offline --test hunt_HC17_2

use parity_db::{ColumnOptions, Db, Options};

fn key(i: u32) -> Vec<u8> {
	format!("key-{i}").into_bytes()
}

fn value(i: u32) -> Vec<u8> {
	format!("value-{i}").into_bytes()
}

fn col0_files(path: &std::path::Path) -> Vec<String> {
	let mut v: Vec<String> = std::fs::read_dir(path)
		.unwrap()
		.map(|e| e.unwrap().file_name().to_str().unwrap().to_string())
		.filter(|n| n.starts_with("index_00_") || n.starts_with("table_00_"))
		.collect();
	v.sort();
	v
}

#[test]
fn dropping_the_257th_column_keeps_column_0() {
	let dir = tempfile::tempdir().unwrap();
	let path = dir.path().join("db");

	// 255 columns is the most `Options::with_columns` can express; `columns` is a public Vec.
	let mut options = Options::with_columns(&path, 255);
	{
		let db = Db::open_or_create(&options).unwrap();
		db.commit((0..20u32).map(|i| (0u8, key(i), Some(value(i))))).unwrap();
		db.commit((0..20u32).map(|i| (254u8, key(i), Some(value(i))))).unwrap();
	}
	let files_before = col0_files(&path);
	assert!(!files_before.is_empty());

	// 256th column (index 255): still addressable.
	Db::add_column(&mut options, ColumnOptions::default()).unwrap();
	assert_eq!(options.columns.len(), 256);

	// 257th column (index 256): not addressable with a u8. Either outcome is acceptable as long
	// as no other column is damaged.
	let added = Db::add_column(&mut options, ColumnOptions::default());
	if added.is_ok() {
		assert_eq!(options.columns.len(), 257);
		// Drop the column that was just added. It is empty; nothing else may change.
		Db::drop_last_column(&mut options).unwrap();
	}
	assert_eq!(options.columns.len(), 256);

	assert_eq!(col0_files(&path), files_before, "files of column 0 were removed");
	let db = Db::open(&options).unwrap();
	for i in 0..20u32 {
		assert_eq!(db.get(254, &key(i)).unwrap(), Some(value(i)), "column 254 key {i}");
		assert_eq!(db.get(0, &key(i)).unwrap(), Some(value(i)), "column 0 key {i} lost");
	}
}
