//! C11 finding 3: the deferral decision (`is_locked()` + scan of the queue for `used_trees`) and
//! the dereference walk (`tree.write()`) are not one atomic step. A client that locks the tree
//! after the decision, builds a new tree that reuses its nodes, commits it and unlocks, gets
//! its nodes freed by the walk that was already let through: the new tree is committed
//! successfully but points at freed slots, which the next insertion recycles.
//!
//! The schedule is made deterministic without touching src/: the test installs a `log::Log`
//! implementation and parks the log-worker thread inside its own
//! `log::debug!("Processing commit {id} ...")` call, which `process_commits` emits after the
//! deferral decision and before `write_plan`.
//!
//! Run: cargo test --offline --features instrumentation --test hunt_HC11_3
#![cfg(feature = "instrumentation")]

use parity_db::{ColumnOptions, Db, NewNode, NodeRef, Operation, Options};
use std::{
	sync::{
		atomic::{AtomicU8, Ordering},
		mpsc::{channel, Receiver, Sender},
		Arc, Mutex,
	},
	thread::ThreadId,
	time::Duration,
};

const TREES: u8 = 0;

struct Window {
	worker: ThreadId,
	opened: Sender<()>,
	resume: Receiver<()>,
}

// 0: idle, 1: park at "Processing commit", 2: done
static STATE: AtomicU8 = AtomicU8::new(0);
static WINDOW: Mutex<Option<Window>> = Mutex::new(None);

struct Scheduler;
impl log::Log for Scheduler {
	fn enabled(&self, _: &log::Metadata) -> bool {
		true
	}
	fn log(&self, record: &log::Record) {
		if STATE.load(Ordering::SeqCst) != 1 {
			return
		}
		let window = WINDOW.lock().unwrap();
		let Some(w) = window.as_ref() else { return };
		if std::thread::current().id() != w.worker {
			return
		}
		let msg = record.args().to_string();
		if !msg.starts_with("Processing commit") {
			return
		}
		// The commit with the dereference was found not deferrable; the walk has not started.
		STATE.store(2, Ordering::SeqCst);
		eprintln!("worker parked at: {msg:?}");
		w.opened.send(()).unwrap();
		// A correct implementation would keep the reader out (or notice it afterwards); if the
		// reader cannot get in nobody answers: go on after a while.
		let _ = w.resume.recv_timeout(Duration::from_secs(3));
	}
	fn flush(&self) {}
}
static SCHEDULER: Scheduler = Scheduler;

fn options(path: &std::path::Path) -> Options {
	let mut options = Options::with_columns(path, 1);
	options.salt = Some([0u8; 32]);
	options.with_background_thread = false;
	options.always_flush = true;
	options.columns[TREES as usize] =
		ColumnOptions { multitree: true, allow_direct_node_access: true, ..Default::default() };
	options
}

fn pipeline(db: &Db) {
	for _ in 0..4 {
		db.process_commits().unwrap();
	}
	db.flush_logs().unwrap();
	db.enact_logs().unwrap();
	db.clean_logs().unwrap();
}

fn read_tree(db: &Db, key: &[u8]) -> Option<(Vec<u8>, Vec<Option<Vec<u8>>>)> {
	let tree = db.get_tree(TREES, key).unwrap()?;
	let guard = tree.read();
	let (data, children) = guard.get_root().unwrap()?;
	let nodes =
		children.iter().map(|c| guard.get_node(*c).unwrap_or(None).map(|(d, _)| d)).collect();
	Some((data, nodes))
}

#[test]
fn tree_built_from_a_locked_tree_stays_valid() {
	log::set_logger(&SCHEDULER).unwrap();
	log::set_max_level(log::LevelFilter::Trace);

	let dir = tempfile::tempdir().unwrap();
	let db = Arc::new(Db::open_or_create(&options(dir.path())).unwrap());
	let key_a = vec![0xA1u8; 32];
	let key_b = vec![0xB2u8; 32];
	let key_c = vec![0xC3u8; 32];
	let tree_a = NewNode {
		data: vec![1u8; 16],
		children: vec![
			NodeRef::New(NewNode { data: vec![1, 1], children: vec![] }),
			NodeRef::New(NewNode { data: vec![1, 2], children: vec![] }),
		],
	};
	db.commit_changes(vec![(TREES, Operation::InsertTree(key_a.clone(), tree_a))]).unwrap();
	pipeline(&db);

	let (opened_tx, opened_rx) = channel();
	let (resume_tx, resume_rx) = channel();
	*WINDOW.lock().unwrap() =
		Some(Window { worker: std::thread::current().id(), opened: opened_tx, resume: resume_rx });

	// Writer thread: locks tree A, builds tree B on top of A's nodes, commits, unlocks. This is
	// the usage pattern of admin/src/multitree_bench.
	let writer_db = db.clone();
	let (writer_key_a, writer_key_b) = (key_a.clone(), key_b.clone());
	let writer = std::thread::spawn(move || -> bool {
		let tree = writer_db.get_tree(TREES, &writer_key_a).unwrap().expect("tree A exists");
		opened_rx.recv().unwrap();
		let guard = tree.read();
		let built = match guard.get_root().unwrap() {
			Some((_, children)) => {
				// All of A's nodes are readable under the lock.
				for c in &children {
					assert!(guard.get_node(*c).unwrap().is_some());
				}
				let tree_b = NewNode {
					data: vec![2u8; 16],
					children: children.iter().map(|c| NodeRef::Existing(*c)).collect(),
				};
				writer_db
					.commit_changes(vec![(TREES, Operation::InsertTree(writer_key_b, tree_b))])
					.unwrap();
				true
			},
			// Tree A was already gone when the lock was granted: nothing to build on.
			None => false,
		};
		drop(guard);
		let _ = resume_tx.send(());
		built
	});

	// Pruner + log worker (this thread).
	db.commit_changes(vec![(TREES, Operation::DereferenceTree(key_a.clone()))]).unwrap();
	STATE.store(1, Ordering::SeqCst);
	db.process_commits().unwrap();
	assert_eq!(STATE.load(Ordering::SeqCst), 2, "schedule point was not reached");
	let built = writer.join().unwrap();
	pipeline(&db);

	if !built {
		return
	}
	// `commit_changes` for B returned Ok while the writer held A's lock, so B must be whole.
	let expect_b = Some((vec![2u8; 16], vec![Some(vec![1u8, 1]), Some(vec![1u8, 2])]));
	let b_after_pipeline = read_tree(&db, &key_b);

	// Some unrelated tree is inserted later.
	let tree_c = NewNode {
		data: vec![3u8; 16],
		children: vec![
			NodeRef::New(NewNode { data: vec![3, 1], children: vec![] }),
			NodeRef::New(NewNode { data: vec![3, 2], children: vec![] }),
		],
	};
	db.commit_changes(vec![(TREES, Operation::InsertTree(key_c.clone(), tree_c))]).unwrap();
	pipeline(&db);
	let b_after_next_insert = read_tree(&db, &key_b);

	assert_eq!(
		(b_after_pipeline, b_after_next_insert),
		(expect_b.clone(), expect_b),
		"tree B (left: after the pipeline drained, then after an unrelated insertion)"
	);
}
