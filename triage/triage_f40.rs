// C20: migration copies every key, value and reference count.
//
// A database written in an older (still supported, LAST_SUPPORTED_VERSION = 4) format keeps its
// format version in the metadata file, and the version selects the key hashing of `uniform`
// columns (`column::hash_key`: <= 5 raw key, 6..7 key XOR salt, 8 siphash).
// `migrate` walks the source index and re-commits the *already hashed* keys into the destination,
// but the destination is created by `Db::open_or_create(&to)` and so gets CURRENT_VERSION (8).
// The source and destination options are identical in `uniform` (the key hashing scheme is kept),
// yet every migrated key, and every key of a column that was only copied, is hashed differently by
// the destination and cannot be found.
//
// Run: cargo test --offline --test hunt_HC20_1 -- --test-threads=1

use parity_db::{ColumnOptions, CompressionType, Db, Options};
use tempfile::tempdir;

const OLD_VERSION: u32 = 7;

fn key(i: u32) -> Vec<u8> {
	// 32 byte uniformly distributed looking key.
	let mut k = [0u8; 32];
	for (n, b) in k.iter_mut().enumerate() {
		*b = (i as u8).wrapping_mul(31).wrapping_add(n as u8).wrapping_mul(167) ^ (i >> 8) as u8;
	}
	k[0..4].copy_from_slice(&i.wrapping_mul(0x9E37_79B9).to_be_bytes());
	k.to_vec()
}

fn value(i: u32) -> Vec<u8> {
	format!("value-{i}").into_bytes().repeat(1 + (i as usize % 7))
}

fn source_options(path: &std::path::Path) -> Options {
	let mut options = Options::with_columns(path, 2);
	options.columns[0] = ColumnOptions { uniform: true, ..Default::default() };
	options.columns[1] = ColumnOptions { uniform: true, ..Default::default() };
	options
}

// Creates a database in the format of version 7, the way an older release of the crate left it on
// disk: same files, `version=7` in the metadata.
fn create_old_source(path: &std::path::Path, n: u32) -> Options {
	let options = source_options(path);
	std::fs::create_dir_all(path).unwrap();
	options.write_metadata_with_version(path, &[0x5a; 32], Some(OLD_VERSION)).unwrap();
	let db = Db::open_or_create(&options).unwrap();
	db.commit((0..n).flat_map(|i| {
		[(0u8, key(i), Some(value(i))), (1u8, key(i + 1_000_000), Some(value(i + 1_000_000)))]
	}))
	.unwrap();
	drop(db);
	// Sanity: the source is readable and still in the old format.
	let db = Db::open(&options).unwrap();
	for i in 0..n {
		assert_eq!(db.get(0, &key(i)).unwrap(), Some(value(i)));
		assert_eq!(db.get(1, &key(i + 1_000_000)).unwrap(), Some(value(i + 1_000_000)));
	}
	drop(db);
	assert_eq!(Options::load_metadata(path).unwrap().unwrap().version, OLD_VERSION);
	options
}

#[test]
fn migrated_and_copied_columns_of_an_old_format_source_are_readable() {
	let dir = tempdir().unwrap();
	let source_dir = dir.path().join("source");
	let dest_dir = dir.path().join("dest");
	let n = 100;
	let source = create_old_source(&source_dir, n);

	// Column 0 changes compression (migrated), column 1 is untouched (copied).
	let mut dest = source.clone();
	dest.path = dest_dir.clone();
	dest.columns[0].compression = CompressionType::Lz4;
	parity_db::migrate(&source_dir, dest.clone(), false, &[]).unwrap();

	let db = Db::open(&dest).unwrap();
	let mut missing_migrated = 0;
	let mut missing_copied = 0;
	for i in 0..n {
		if db.get(0, &key(i)).unwrap() != Some(value(i)) {
			missing_migrated += 1;
		}
		if db.get(1, &key(i + 1_000_000)).unwrap() != Some(value(i + 1_000_000)) {
			missing_copied += 1;
		}
	}
	assert_eq!(
		(missing_migrated, missing_copied),
		(0, 0),
		"keys of the source that the destination does not return (migrated column, copied column), out of {n} each"
	);
}

#[test]
fn in_place_migration_of_an_old_format_source_keeps_the_other_columns_readable() {
	let dir = tempdir().unwrap();
	let source_dir = dir.path().join("source");
	let dest_dir = dir.path().join("dest");
	let n = 100;
	let source = create_old_source(&source_dir, n);

	let mut dest = source.clone();
	dest.path = dest_dir.clone();
	dest.columns[0].compression = CompressionType::Lz4;
	parity_db::migrate(&source_dir, dest.clone(), true, &[]).unwrap();

	// The source directory now holds the migrated database.
	let mut migrated = dest.clone();
	migrated.path = source_dir.clone();
	let db = Db::open(&migrated).unwrap();
	let mut missing_migrated = 0;
	let mut missing_untouched = 0;
	for i in 0..n {
		if db.get(0, &key(i)).unwrap() != Some(value(i)) {
			missing_migrated += 1;
		}
		if db.get(1, &key(i + 1_000_000)).unwrap() != Some(value(i + 1_000_000)) {
			missing_untouched += 1;
		}
	}
	assert_eq!(
		(missing_migrated, missing_untouched),
		(0, 0),
		"keys that are lost after the in-place migration (migrated column, untouched column), out of {n} each"
	);
}
