// C04 / second round, finding 1.
//
// A process that dies while a btree column is being created (first open of the database, or first
// open after `Db::add_column` / `Db::reset_column` / `clear_column`) can leave the column
// permanently unreadable: every `Db::get`, `Db::iter` step and every later commit to the column
// fails with `Corruption("Invalid header length.")`.
//
// `ValueTable::do_init_with_entry` (src/table.rs) writes the two slots of the first value table in
// the iteration order of an identity-hashed map: slot 0 (table header, `filled = 2`) first, slot 1
// (the btree header: root address + depth) second. `ValueTable::is_init` only looks at `filled`.
// A crash between the two writes leaves `filled = 2` and slot 1 all zeroes: the next open believes
// the table is initialised and reads an empty btree header.
//
// The window holds no I/O call, so the crash point is imposed with gdb (hunt_H2C04_1.gdb): it stops
// the process at the second `TableFile::write_at` of the creation and copies the database directory
// - which is what a crash at that instant leaves behind. Without gdb no image is taken and the test
// passes.
//
//   cargo test --offline --features instrumentation --test hunt_H2C04_1 --no-run
//   gdb -batch -x tests/hunt_H2C04_1.gdb --args target/debug/deps/hunt_H2C04_1-<hash> --test-threads=1 --nocapture
#![cfg(feature = "instrumentation")]
use parity_db::{ColumnOptions, Db, Options};
use std::path::{Path, PathBuf};

fn base() -> PathBuf {
	Path::new(env!("CARGO_MANIFEST_DIR")).join("target").join("hunt_H2C04_1")
}

fn options(path: &Path) -> Options {
	let mut options = Options::with_columns(path, 1);
	options.columns[0] = ColumnOptions { btree_index: true, ..Default::default() };
	options.with_background_thread = false;
	options
}

// Marker for the gdb script: tells it where the database is.
#[no_mangle]
#[inline(never)]
pub extern "C" fn hunt_h2c04_1_before_create(base: *const std::os::raw::c_char) {
	std::hint::black_box(base);
}

#[test]
fn crash_while_creating_a_btree_column() {
	let base = base();
	let _ = std::fs::remove_dir_all(&base);
	std::fs::create_dir_all(&base).unwrap();
	let live = base.join("db");
	let image = base.join("image");

	let c_base = std::ffi::CString::new(base.to_str().unwrap()).unwrap();
	hunt_h2c04_1_before_create(c_base.as_ptr());
	{
		// The gdb script copies `db` to `image` in the middle of this call.
		let db = Db::open_or_create(&options(&live)).unwrap();
		db.commit(vec![(0u8, b"key".to_vec(), Some(b"value".to_vec()))]).unwrap();
	}

	// The database that did not crash is fine.
	{
		let db = Db::open(&options(&live)).unwrap();
		assert_eq!(db.get(0, b"key").unwrap(), Some(b"value".to_vec()));
	}

	if !image.exists() {
		println!("no crash image was taken (not running under the gdb script): nothing to check");
		return
	}
	let _ = std::fs::remove_file(image.join("lock"));

	// Restart after the crash. Nothing had been committed, so the column must be empty and usable.
	let db = Db::open_or_create(&options(&image)).expect("open after the crash");
	let got = db.get(0, b"key");
	assert!(matches!(got, Ok(None)), "point read after the crash: {got:?}");
	let mut iter = db.iter(0).expect("iterator after the crash");
	iter.seek_to_first().expect("seek_to_first after the crash");
	let first = iter.next();
	assert!(matches!(first, Ok(None)), "first step after the crash: {first:?}");
	db.commit(vec![(0u8, b"key".to_vec(), Some(b"value".to_vec()))]).unwrap();
	db.process_commits().expect("commit after the crash");
	assert_eq!(db.get(0, b"key").unwrap(), Some(b"value".to_vec()));
}
