// H5C16 finding 2: `Db::reset_column` (and `clear_column`, `drop_last_column`, `add_column`) open
// the database and close it again with a plain `drop` before they touch the column files. The
// workers of that short session do real work (the log worker continues a reindex that was in
// progress when the database was closed last) and the shutdown path (`kill_logs`) can fail with
// an I/O error. `Drop` can only log that error. The administration call goes on, deletes the files
// of the column and returns `Ok(())` - while a write-ahead log with a complete record for the
// column is still on disk. The next open replays that record into the emptied column: index
// entries without values. `Db::get` on such a key panics.
//
// Run: cargo test --offline --features instrumentation --test hunt_H5C16_2

use parity_db::{ColumnOptions, Db, Options};
use std::sync::atomic::{AtomicBool, AtomicUsize, Ordering};

static FAIL_SYNC: AtomicBool = AtomicBool::new(false);
static FAILED_CALLS: AtomicUsize = AtomicUsize::new(0);

unsafe fn real(name: &[u8]) -> unsafe extern "C" fn(libc::c_int) -> libc::c_int {
	let p = libc::dlsym(libc::RTLD_NEXT, name.as_ptr() as *const libc::c_char);
	assert!(!p.is_null());
	std::mem::transmute(p)
}

// A device that can not write back: every fdatasync / fsync fails with EIO while the flag is set.
// Everything else (open, read, write, ftruncate, unlink, mmap, msync) works.
#[no_mangle]
pub unsafe extern "C" fn fdatasync(fd: libc::c_int) -> libc::c_int {
	if FAIL_SYNC.load(Ordering::SeqCst) {
		FAILED_CALLS.fetch_add(1, Ordering::SeqCst);
		*libc::__errno_location() = libc::EIO;
		return -1
	}
	real(b"fdatasync\0")(fd)
}

#[no_mangle]
pub unsafe extern "C" fn fsync(fd: libc::c_int) -> libc::c_int {
	if FAIL_SYNC.load(Ordering::SeqCst) {
		FAILED_CALLS.fetch_add(1, Ordering::SeqCst);
		*libc::__errno_location() = libc::EIO;
		return -1
	}
	real(b"fsync\0")(fd)
}

const N: usize = 65;

// Uniform column + zero salt: the key bytes are the hash. All keys share their first 16 bits (one
// chunk of the initial 16 bit index, which holds 64 entries) and differ in bit 17.
fn key(i: usize) -> Vec<u8> {
	let mut k = vec![0u8; 32];
	k[0] = 0xAB;
	k[1] = 0xCD;
	k[2] = ((i % 2) as u8) << 7;
	k[3] = i as u8;
	k[8] = i as u8;
	k[9] = 0x55;
	k
}

fn value(i: usize) -> Vec<u8> {
	format!("value number {i}").into_bytes()
}

fn options(path: &std::path::Path, background: bool) -> Options {
	let mut o = Options::with_columns(path, 1);
	o.columns[0] = ColumnOptions { uniform: true, ..Default::default() };
	o.salt = Some([0; 32]);
	o.with_background_thread = background;
	o
}

static SERIAL: std::sync::Mutex<()> = std::sync::Mutex::new(());

// The same history without the fault passes on the unmodified code.
#[test]
fn control_without_the_fault() {
	run(false)
}

#[test]
fn reset_column_after_a_failed_internal_shutdown_leaves_a_clean_column() {
	run(true)
}

fn run(fault: bool) {
	let _serial = SERIAL.lock().unwrap_or_else(|e| e.into_inner());
	std::fs::create_dir_all(concat!(env!("CARGO_MANIFEST_DIR"), "/tmp")).unwrap();
	let dir = tempfile::tempdir_in(concat!(env!("CARGO_MANIFEST_DIR"), "/tmp")).unwrap();
	let path = dir.path().join("db");

	// Session 1: 65 keys in one index chunk. The 65th starts a reindex (16 -> 17 bits). The
	// database is closed cleanly while that reindex is pending, which is what happens to any
	// database that is closed while an index grows (`Db::drop` does not finish a reindex).
	{
		let db = Db::open_or_create(&options(&path, false)).unwrap();
		db.commit((0..N).map(|i| (0u8, key(i), Some(value(i))))).unwrap();
		db.process_commits().unwrap();
		db.flush_logs().unwrap();
		db.enact_logs().unwrap();
		db.clean_logs().unwrap();
	}
	assert!(path.join("index_00_16").exists(), "old index still there (reindex pending)");
	assert!(path.join("index_00_17").exists(), "new index there");
	assert!(!std::fs::read_dir(&path)
		.unwrap()
		.any(|e| e.unwrap().file_name().to_str().unwrap().starts_with("log")));
	{
		let db = Db::open(&options(&path, false)).unwrap();
		for i in 0..N {
			assert_eq!(db.get(0, &key(i)).unwrap(), Some(value(i)));
		}
	}

	// The administration call, with default options (background threads), on a device that can
	// not sync.
	let mut admin_options = options(&path, true);
	FAILED_CALLS.store(0, Ordering::SeqCst);
	FAIL_SYNC.store(fault, Ordering::SeqCst);
	let result = Db::reset_column(&mut admin_options, 0, None);
	FAIL_SYNC.store(false, Ordering::SeqCst);
	assert!(!fault || FAILED_CALLS.load(Ordering::SeqCst) > 0, "the fault was never hit");
	let logs: Vec<_> = std::fs::read_dir(&path)
		.unwrap()
		.map(|e| e.unwrap())
		.filter(|e| e.file_name().to_str().unwrap().starts_with("log"))
		.map(|e| (e.file_name(), e.metadata().unwrap().len()))
		.collect();
	eprintln!("reset_column returned {result:?}; log files left behind: {logs:?}");

	// The fault is gone. Reopen.
	let db = Db::open(&options(&path, false)).unwrap();
	match result {
		Err(_) => {
			// Reported: then nothing may have been deleted.
			for i in 0..N {
				assert_eq!(
					db.get(0, &key(i)).unwrap(),
					Some(value(i)),
					"reset_column failed but key {i} is gone"
				);
			}
		},
		Ok(()) => {
			// Not reported: then the column is empty, and usable.
			let mut panicked = Vec::new();
			let mut wrong = Vec::new();
			let hook = std::panic::take_hook();
			std::panic::set_hook(Box::new(|_| ()));
			for i in 0..N {
				match std::panic::catch_unwind(std::panic::AssertUnwindSafe(|| db.get(0, &key(i)))) {
					Err(_) => panicked.push(i),
					Ok(Ok(None)) => (),
					Ok(other) => wrong.push((i, format!("{other:?}"))),
				}
			}
			std::panic::set_hook(hook);
			assert!(
				panicked.is_empty() && wrong.is_empty(),
				"reset_column returned Ok(()) although the shutdown of its internal session failed \
				 (a log with a record for the column was left on disk); after reopening, Db::get \
				 on the reset column panics for keys {panicked:?}, wrong answers {wrong:?}"
			);
		},
	}
}
