// C11, second round, finding 1 (same defect as tests/hunt_H2C11_1.rs), this time with two ordinary client threads that both
// commit plain `Vec` transactions. The schedule (the writer is preempted between computing the
// `used_trees` marks in `DbInner::commit_changes` and queueing the commit in `commit_raw`) is
// imposed from outside with gdb, see hunt_H2C11_1_gdb.gdb. Without gdb the pruner commits well
// after the writer and the test passes.
//
//   cargo test --offline --features instrumentation --test hunt_H2C11_1_gdb            (passes)
//   cargo test --offline --features instrumentation --test hunt_H2C11_1_gdb --no-run
//   gdb -batch -x tests/hunt_H2C11_1_gdb.gdb --args target/debug/deps/hunt_H2C11_1_gdb-<hash> \
//       --test-threads=1 --nocapture                                              (fails)

use parity_db::{ColumnOptions, Db, NewNode, NodeRef, Operation, Options};
use std::{sync::mpsc::channel, time::Duration};

const KEY_A: [u8; 32] = [0xA1; 32];
const KEY_B: [u8; 32] = [0xB2; 32];

#[no_mangle]
#[inline(never)]
pub extern "C" fn hunt_h2c11_writer_about_to_commit() {
	std::hint::black_box(());
}

#[no_mangle]
#[inline(never)]
pub extern "C" fn hunt_h2c11_pruner_commit_returned() {
	std::hint::black_box(());
}

fn drain(db: &Db) {
	for _ in 0..8 {
		db.process_commits().unwrap();
	}
	db.flush_logs().unwrap();
	db.enact_logs().unwrap();
	db.clean_logs().unwrap();
}

#[test]
fn tree_built_on_a_locked_tree_stays_valid() {
	let dir = tempfile::tempdir().unwrap();
	let mut options = Options::with_columns(dir.path(), 1);
	options.columns[0] = ColumnOptions { multitree: true, ..Default::default() };
	options.with_background_thread = false;
	options.always_flush = true;
	let db = Db::open_or_create(&options).unwrap();

	db.commit_changes(vec![(
		0u8,
		Operation::InsertTree(
			KEY_A.to_vec(),
			NewNode {
				data: vec![1; 16],
				children: vec![
					NodeRef::New(NewNode { data: vec![1, 1], children: vec![] }),
					NodeRef::New(NewNode { data: vec![1, 2], children: vec![] }),
				],
			},
		),
	)])
	.unwrap();
	drain(&db);

	let children = std::thread::scope(|scope| {
		let (ready, wait_ready) = channel::<()>();
		let db = &db;
		let pruner = std::thread::Builder::new()
			.name("pruner".into())
			.spawn_scoped(scope, move || {
				ready.send(()).unwrap();
				// Plenty of time for the writer's commit call, unless it is preempted.
				std::thread::sleep(Duration::from_millis(1500));
				db.commit_changes(vec![(0u8, Operation::DereferenceTree(KEY_A.to_vec()))])
					.unwrap();
				hunt_h2c11_pruner_commit_returned();
			})
			.unwrap();

		// The writer: locks A, builds B on A's nodes, commits, unlocks.
		let tree = db.get_tree(0, &KEY_A).unwrap().unwrap();
		let guard = tree.read();
		let (_, children) = guard.get_root().unwrap().unwrap();
		let tx = vec![(
			0u8,
			Operation::InsertTree(
				KEY_B.to_vec(),
				NewNode {
					data: vec![2; 16],
					children: children.iter().map(|c| NodeRef::Existing(*c)).collect(),
				},
			),
		)];
		wait_ready.recv().unwrap();
		hunt_h2c11_writer_about_to_commit();
		db.commit_changes(tx).unwrap();
		assert_eq!(guard.get_node(children[0]).unwrap().map(|n| n.0), Some(vec![1, 1]));
		drop(guard);
		pruner.join().unwrap();
		children
	});

	for _ in 0..8 {
		db.process_commits().unwrap();
	}
	let check = |db: &Db, when: &str| {
		assert_eq!(db.get_tree(0, &KEY_A).unwrap().is_none(), true, "{when}: A is removed");
		let tree = db.get_tree(0, &KEY_B).unwrap().unwrap();
		let guard = tree.read();
		assert_eq!(guard.get_root().unwrap(), Some((vec![2; 16], children.clone())), "{when}");
		let nodes: Vec<_> =
			children.iter().map(|c| guard.get_node(*c).unwrap().map(|n| n.0)).collect();
		assert_eq!(nodes, vec![Some(vec![1, 1]), Some(vec![1, 2])], "{when}: nodes of B");
		assert_eq!(db.get_num_column_value_entries(0).unwrap(), 3, "{when}: entries");
	};
	check(&db, "before flush");
	drain(&db);
	drop(db);
	let db = Db::open(&options).unwrap();
	check(&db, "reopened");
}
