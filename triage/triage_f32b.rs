// HC06 finding 2: `Db::iter_column_while` delivers a torn chained (multi-part) value.
//
// Same mechanism as finding 1 (`ValueTable::for_parts` looks every part up under its own short
// log-overlay lock), other public read path, wider reach: the value iteration has no protection at
// all against the log worker (it only excludes the enact stage through `iteration_lock`), so this
// happens in ANY hash column, ref-counted or not, for a plain overwrite of the value being
// iterated. The callback receives the head of the old value followed by the tail of the new one -
// bytes that were never stored. (The documentation only allows the iteration to miss recent
// commits, not to invent values.)
//
// The interleaving is forced deterministically with a `log::Log` implementation used as a
// synchronisation hook, exactly as in tests/hunt_HC06_1.rs. No library code is changed.
//
// Run: cargo test --offline --features instrumentation --test hunt_HC06_2
#![cfg(feature = "instrumentation")]

use parity_db::{ColumnOptions, Db, Options};
use std::sync::{Condvar, Mutex};

#[derive(Default)]
struct State {
	armed: bool,
	reader_paused: bool,
	record_logged: bool,
	release_reader: bool,
}

struct Hook {
	state: Mutex<State>,
	cv: Condvar,
}

static HOOK: Hook = Hook {
	state: Mutex::new(State {
		armed: false,
		reader_paused: false,
		record_logged: false,
		release_reader: false,
	}),
	cv: Condvar::new(),
};

impl log::Log for Hook {
	fn enabled(&self, _: &log::Metadata) -> bool {
		true
	}
	fn log(&self, record: &log::Record) {
		if record.target() != "parity-db" {
			return
		}
		let msg = format!("{}", record.args());
		let mut state = self.state.lock().unwrap();
		if !state.armed {
			return
		}
		let is_reader = std::thread::current().name() == Some("hc06-iter");
		if is_reader && msg.starts_with("t00-ff: Query slot") && !state.reader_paused {
			// The reader found nothing in the log overlay for the head of the chain and is about to
			// read it from the table file. Hold it here.
			state.reader_paused = true;
			self.cv.notify_all();
			while !state.release_reader {
				state = self.cv.wait(state).unwrap();
			}
		} else if !is_reader && msg.starts_with("Finalizing log record") {
			state.record_logged = true;
			self.cv.notify_all();
		}
	}
	fn flush(&self) {}
}

fn step(db: &Db) {
	db.process_commits().unwrap();
	db.flush_logs().unwrap();
	db.enact_logs().unwrap();
	db.clean_logs().unwrap();
}

fn value(len: usize, seed: u8) -> Vec<u8> {
	(0..len).map(|i| ((i * 31 + i / 251) as u8) ^ seed).collect()
}

#[test]
fn iteration_never_delivers_a_torn_value() {
	log::set_logger(&HOOK).unwrap();
	log::set_max_level(log::LevelFilter::Trace);

	let dir = tempfile::tempdir().unwrap();
	let mut options = Options::with_columns(dir.path(), 1);
	options.columns[0] = ColumnOptions::default();
	options.with_background_thread = false;
	let db = Db::open_or_create(&options).unwrap();

	// Two different 40000-byte values: 10 parts of the 4096-byte multipart table each.
	let k1 = b"key-one".to_vec();
	let v1 = value(40_000, 0x11);
	let v2 = value(40_000, 0xee);

	// k1 -> v1 is stored and fully written to the table file; all overlays are empty.
	db.commit(vec![(0u8, k1.clone(), Some(v1.clone()))]).unwrap();
	step(&db);
	assert_eq!(db.get(0, &k1).unwrap(), Some(v1.clone()));

	// Overwrite k1 with v2 (same size: the chain is rewritten in place). Queued, not yet logged.
	db.commit(vec![(0u8, k1.clone(), Some(v2.clone()))]).unwrap();

	HOOK.state.lock().unwrap().armed = true;

	let seen = std::thread::scope(|s| {
		let iter = std::thread::Builder::new()
			.name("hc06-iter".into())
			.spawn_scoped(s, || {
				let mut seen = Vec::new();
				db.iter_column_while(0, |state| {
					seen.push(state.value);
					true
				})
				.unwrap();
				seen
			})
			.unwrap();
		{
			// Wait until the iteration is about to read the head of k1's chain from the file.
			let mut state = HOOK.state.lock().unwrap();
			while !state.reader_paused {
				state = HOOK.cv.wait(state).unwrap();
			}
		}
		// The log worker now logs the queued commit.
		let worker = std::thread::Builder::new()
			.name("hc06-log-worker".into())
			.spawn_scoped(s, || db.process_commits().unwrap())
			.unwrap();
		{
			// On the code as it is the record is logged right away. An implementation that keeps
			// the log overlay locked while it reads one value makes the worker wait for the
			// iteration instead: give up waiting after a while and let the iteration go on.
			let deadline = std::time::Instant::now() + std::time::Duration::from_secs(3);
			let mut state = HOOK.state.lock().unwrap();
			while !state.record_logged {
				let now = std::time::Instant::now();
				if now >= deadline {
					break
				}
				state = HOOK.cv.wait_timeout(state, deadline - now).unwrap().0;
			}
			state.release_reader = true;
			HOOK.cv.notify_all();
		}
		let seen = iter.join().unwrap();
		worker.join().unwrap();
		seen
	});
	HOOK.state.lock().unwrap().armed = false;

	// The iteration overlapped the overwrite: it may deliver the old or the new value of k1.
	assert_eq!(seen.len(), 1, "one value is stored in the column");
	let v = &seen[0];
	if *v != v1 && *v != v2 {
		let head = v.iter().zip(v1.iter()).take_while(|(a, b)| a == b).count();
		panic!(
			"the iteration delivered {} bytes that are neither v1 nor v2: the first {} bytes are \
			 from v1, the remaining {} bytes equal v2 at the same offsets: {}",
			v.len(),
			head,
			v.len() - head,
			v.len() == v2.len() && v[head..] == v2[head..],
		)
	}

	step(&db);
	assert_eq!(db.get(0, &k1).unwrap(), Some(v2));
}
