// H4C09 finding 1: a root that is replaced while its new value slot lies beyond the address range
// of the current index (growth "by address overflow") leaves its old index entry behind. In a
// multitree column the freed root slot is then taken by a node, which stores no key:
//  * replaced_root_can_be_removed_and_inserted_again: once the tree was removed, inserting it again
//    fails in the log worker (Corruption("Unexpected entry size")), the database refuses every commit;
//  * removed_root_reads_as_absent_while_another_tree_is_written: while that node is still in the log
//    overlay a lookup of the removed root panics in the caller's thread (src/table.rs read_slice);
//  * replaced_root_with_background_workers: the first history again with the ordinary worker threads
//    and the public interface only (no stepping): the commit is accepted, later commits are refused
//    with Error::Background, the accepted tree is gone after reopening.
//
// cargo test --release --offline --features instrumentation --test hunt_H4C09_1 -- --nocapture
//
// (about 8 s; a debug build works as well and takes about a minute: each test writes 4.29 million
// tree nodes to make one size tier longer than a 16 bit index can address. H4C09_INFLATE=1 reaches
// the same state in a second through rejected commits, which leave their claimed node slots behind.
// All three tests pass once the stale entry is removed, see NOTES.md.)
#![cfg(feature = "instrumentation")]
use parity_db::{ColumnOptions, Db, NewNode, NodeRef, Operation, Options};
use std::path::{Path, PathBuf};

fn workdir(name: &str) -> PathBuf {
	let base = Path::new(env!("CARGO_MANIFEST_DIR")).join("tmp");
	std::fs::create_dir_all(&base).unwrap();
	let dir = base.join(name);
	let _ = std::fs::remove_dir_all(&dir);
	dir
}

// Removes the (260 MB) database directory also when the test fails.
struct Cleanup(PathBuf);
impl Drop for Cleanup {
	fn drop(&mut self) {
		let _ = std::fs::remove_dir_all(&self.0);
	}
}

fn options(path: &Path) -> Options {
	let mut o = Options::with_columns(path, 1);
	o.with_background_thread = false;
	o.always_flush = true;
	o.sync_wal = false;
	o.sync_data = false;
	o.columns[0] = ColumnOptions {
		multitree: true,
		allow_direct_node_access: true,
		..Default::default()
	};
	o
}

// Runs every stage of the pipeline until nothing is left to do, growth batches included.
fn settle(db: &Db, commits: usize) {
	for _ in 0..commits {
		db.process_commits().unwrap();
	}
	for _ in 0..4 {
		db.clean_logs().unwrap();
		db.flush_logs().unwrap();
		db.enact_logs().unwrap();
		db.clean_logs().unwrap();
		db.process_reindex().unwrap();
	}
	db.clean_logs().unwrap();
	db.flush_logs().unwrap();
	db.enact_logs().unwrap();
	db.clean_logs().unwrap();
}

fn index_files(dir: &Path) -> Vec<String> {
	let mut f: Vec<String> = std::fs::read_dir(dir)
		.unwrap()
		.map(|e| e.unwrap().file_name().to_string_lossy().to_string())
		.filter(|n| n.starts_with("index"))
		.collect();
	f.sort();
	f
}

// Node of 52 bytes: 53 bytes packed, stored in the size tier with 55 byte entries. A root of 26
// bytes (27 packed + 26 bytes of key) goes to the same tier.
fn leaf(i: usize) -> NodeRef {
	let mut data = vec![0x4c; 52];
	data[0..8].copy_from_slice(&(i as u64).to_le_bytes());
	NodeRef::New(NewNode { data, children: vec![] })
}

fn filler_tree(n: usize) -> NewNode {
	let mid = |j: usize| {
		NodeRef::New(NewNode { data: vec![0x4d; 52], children: (0..255).map(|i| leaf(j * 255 + i)).collect() })
	};
	NewNode { data: vec![n as u8; 3], children: (0..255).map(mid).collect() }
}

const SMALL_ROOT: [u8; 3] = [1, 2, 3];
const K: &[u8] = b"the root that is replaced";

// Steps 1-5: a tree with a small root, 4.29 million nodes in another size tier, the root replaced
// by one that goes to that tier, the growth completed, the tree removed.
fn prepare(dir: &Path) -> Db {
	let db = Db::open_or_create(&options(dir)).unwrap();

	// A tree with a small root: the root value is stored in the first size tier, slot 1.
	db.commit_changes(vec![(
		0,
		Operation::InsertTree(K.to_vec(), NewNode { data: SMALL_ROOT.to_vec(), children: vec![] }),
	)])
	.unwrap();
	settle(&db, 1);
	assert_eq!(db.get_root(0, K).unwrap(), Some((SMALL_ROOT.to_vec(), vec![])));

	// More than 2^22 nodes in one size tier: a 16 bit index can not address what comes after them.
	let t = std::time::Instant::now();
	if std::env::var("H4C09_INFLATE").is_ok() {
		for n in 0..66 {
			let r = db.commit_changes(vec![
				(0, Operation::InsertTree(format!("filler {}", n).into_bytes(), filler_tree(n))),
				(0, Operation::Set(b"not allowed here".to_vec(), vec![1])),
			]);
			assert!(r.is_err());
		}
	} else {
		for n in 0..66 {
			db.commit_changes(vec![(
				0,
				Operation::InsertTree(format!("filler {}", n).into_bytes(), filler_tree(n)),
			)])
			.unwrap();
			settle(&db, 1);
		}
	}
	eprintln!("filled the tier in {:?}, index files {:?}", t.elapsed(), index_files(dir));

	// Replace the root by a bigger one: the value moves to the long tier, the index has to grow
	// because the new address does not fit an entry.
	let big_root = vec![0x52; 26];
	db.commit_changes(vec![(
		0,
		Operation::InsertTree(K.to_vec(), NewNode { data: big_root.clone(), children: vec![] }),
	)])
	.unwrap();
	settle(&db, 1);
	eprintln!("after the replacement: index files {:?}", index_files(dir));
	assert_eq!(db.get_root(0, K).unwrap(), Some((big_root.clone(), vec![])));

	// Remove the tree.
	db.commit_changes(vec![(0, Operation::DereferenceTree(K.to_vec()))]).unwrap();
	settle(&db, 1);
	assert_eq!(db.get_root(0, K).unwrap(), None);
	db
}

// Some other tree with small nodes: the first of them takes the slot the small root had.
fn another_tree(node_len: usize) -> Operation<Vec<u8>, Vec<u8>> {
	Operation::InsertTree(
		b"another tree".to_vec(),
		NewNode {
			data: vec![9; 40],
			children: (0..4u8)
				.map(|i| NodeRef::New(NewNode { data: vec![i; node_len], children: vec![] }))
				.collect(),
		},
	)
}

#[test]
fn replaced_root_can_be_removed_and_inserted_again() {
	let dir = workdir("hunt_H4C09_1a");
	let _cleanup = Cleanup(dir.clone());
	let db = prepare(&dir);

	db.commit_changes(vec![(0, another_tree(3))]).unwrap();
	settle(&db, 1);
	assert_eq!(db.get_root(0, K).unwrap(), None);

	// Insert the tree again.
	db.commit_changes(vec![(
		0,
		Operation::InsertTree(K.to_vec(), NewNode { data: SMALL_ROOT.to_vec(), children: vec![] }),
	)])
	.unwrap();
	let planned = db.process_commits();
	assert!(planned.is_ok(), "inserting the removed tree again fails in the log worker: {:?}", planned);
	settle(&db, 0);
	assert_eq!(db.get_root(0, K).unwrap(), Some((SMALL_ROOT.to_vec(), vec![])));
}

#[test]
fn removed_root_reads_as_absent_while_another_tree_is_written() {
	let dir = workdir("hunt_H4C09_1b");
	let _cleanup = Cleanup(dir.clone());
	let db = prepare(&dir);

	// The other tree is logged, not yet written to the tables.
	db.commit_changes(vec![(0, another_tree(24))]).unwrap();
	db.process_commits().unwrap();
	let read = std::panic::catch_unwind(std::panic::AssertUnwindSafe(|| db.get_root(0, K)));
	match read {
		Ok(Ok(None)) => (),
		Ok(other) => panic!("lookup of the removed root: {:?}", other),
		Err(_) => panic!("lookup of the removed root panics in the caller's thread (see the message above)"),
	}
}

// The same history with the ordinary background workers and nothing but the public interface: the
// database is closed and opened again after every step instead of stepping the pipeline (closing
// processes whatever is queued).
#[test]
fn replaced_root_with_background_workers() {
	let dir = workdir("hunt_H4C09_1c");
	let _cleanup = Cleanup(dir.clone());
	let mut options = Options::with_columns(&dir, 1);
	options.sync_wal = false;
	options.sync_data = false;
	options.columns[0] =
		ColumnOptions { multitree: true, allow_direct_node_access: true, ..Default::default() };
	let step = |ops: Vec<(u8, Operation<Vec<u8>, Vec<u8>>)>| {
		let db = Db::open_or_create(&options).unwrap();
		for op in ops {
			db.commit_changes(vec![op]).unwrap();
		}
		drop(db);
	};
	let small = || NewNode { data: SMALL_ROOT.to_vec(), children: vec![] };
	step(vec![(0, Operation::InsertTree(K.to_vec(), small()))]);
	step((0..66)
		.map(|n| (0, Operation::InsertTree(format!("filler {}", n).into_bytes(), filler_tree(n))))
		.collect());
	step(vec![(
		0,
		Operation::InsertTree(K.to_vec(), NewNode { data: vec![0x52; 26], children: vec![] }),
	)]);
	step(vec![(0, Operation::DereferenceTree(K.to_vec()))]);
	step(vec![(0, another_tree(3))]);
	{
		let db = Db::open(&options).unwrap();
		assert_eq!(db.get_root(0, K).unwrap(), None);
		// Accepted ...
		db.commit_changes(vec![(0, Operation::InsertTree(K.to_vec(), small()))]).unwrap();
		assert_eq!(db.get_root(0, K).unwrap(), Some((SMALL_ROOT.to_vec(), vec![])));
		// ... and the database stops taking commits
		let mut refused = None;
		for i in 0..50 {
			std::thread::sleep(std::time::Duration::from_millis(20));
			if let Err(e) = db.commit_changes(vec![(
				0,
				Operation::InsertTree(format!("later {}", i).into_bytes(), small()),
			)]) {
				refused = Some(e);
				break
			}
		}
		if std::env::var("H4C09_SKIP_REFUSED").is_err() {
			assert!(refused.is_none(), "a later commit is refused: {:?}", refused);
		}
	}
	// ... and is lost.
	let db = Db::open(&options).unwrap();
	assert_eq!(
		db.get_root(0, K).unwrap(),
		Some((SMALL_ROOT.to_vec(), vec![])),
		"the tree of an accepted commit is gone after reopening"
	);
}
