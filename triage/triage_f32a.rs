// HC06 finding 1: torn read of a chained (multi-part) value in a ref-counted hash column.
//
// `Db::get` on a hash column looks every part of a chained value up separately, taking and
// releasing the log-overlay lock for each part (`ValueTable::for_parts` with
// `log = &RwLock<LogOverlays>`). What is supposed to protect the reader is the commit overlay: a
// pending change of the key is answered from there and the commit worker cannot clean it while a
// reader holds the commit-overlay read lock. But for `ref_counted` columns `Dereference` is NOT
// put in the commit overlay, so nothing covers a reader of `k` while the log worker logs a commit
// that dereferences `k` to zero and, in the same commit, stores another chained value which takes
// over the slots just freed. The reader then concatenates the head of the old value of `k` with
// parts of the other key's value and returns bytes that were never stored under `k`.
//
// The interleaving is forced deterministically with a `log::Log` implementation used as a
// synchronisation hook (the library traces "Query slot N" right before it reads a slot from the
// file, and "Finalizing log record" when a record has been added to the log overlay). No library
// code is changed.
//
// Run: cargo test --offline --features instrumentation --test hunt_HC06_1
#![cfg(feature = "instrumentation")]

use parity_db::{ColumnOptions, Db, Operation, Options};
use std::sync::{Condvar, Mutex};

#[derive(Default)]
struct State {
	armed: bool,
	reader_paused: bool,
	record_logged: bool,
	release_reader: bool,
}

struct Hook {
	state: Mutex<State>,
	cv: Condvar,
}

static HOOK: Hook = Hook {
	state: Mutex::new(State {
		armed: false,
		reader_paused: false,
		record_logged: false,
		release_reader: false,
	}),
	cv: Condvar::new(),
};

impl log::Log for Hook {
	fn enabled(&self, _: &log::Metadata) -> bool {
		true
	}
	fn log(&self, record: &log::Record) {
		if record.target() != "parity-db" {
			return
		}
		let msg = format!("{}", record.args());
		let mut state = self.state.lock().unwrap();
		if !state.armed {
			return
		}
		let is_reader = std::thread::current().name() == Some("hc06-reader");
		if is_reader && msg.contains("Query slot") && !state.reader_paused {
			// The reader found nothing in the log overlay for the head of the chain and is about to
			// read it from the table file. Hold it here.
			state.reader_paused = true;
			self.cv.notify_all();
			while !state.release_reader {
				state = self.cv.wait(state).unwrap();
			}
		} else if !is_reader && msg.starts_with("Finalizing log record") {
			state.record_logged = true;
			self.cv.notify_all();
		}
	}
	fn flush(&self) {}
}

fn step(db: &Db) {
	db.process_commits().unwrap();
	db.flush_logs().unwrap();
	db.enact_logs().unwrap();
	db.clean_logs().unwrap();
}

fn value(len: usize, seed: u8) -> Vec<u8> {
	(0..len).map(|i| ((i * 31 + i / 251) as u8) ^ seed).collect()
}

#[test]
fn chained_value_is_never_read_torn() {
	log::set_logger(&HOOK).unwrap();
	log::set_max_level(log::LevelFilter::Trace);

	let dir = tempfile::tempdir().unwrap();
	let mut options = Options::with_columns(dir.path(), 1);
	options.columns[0] = ColumnOptions { ref_counted: true, preimage: true, ..Default::default() };
	options.with_background_thread = false;
	let db = Db::open_or_create(&options).unwrap();

	// Two different 40000-byte values: 10 parts of the 4096-byte multipart table each.
	let k1 = b"key-one".to_vec();
	let k2 = b"key-two".to_vec();
	let v1 = value(40_000, 0x11);
	let v2 = value(40_000, 0xee);

	// k1 -> v1 is stored and fully written to the table file; all overlays are empty.
	db.commit(vec![(0u8, k1.clone(), Some(v1.clone()))]).unwrap();
	step(&db);
	assert_eq!(db.get(0, &k1).unwrap(), Some(v1.clone()));

	// One commit: release k1 (reference count 1 -> 0) and store k2. It is queued, not yet logged.
	db.commit_changes(vec![
		(0u8, Operation::Dereference(k1.clone())),
		(0u8, Operation::Set(k2.clone(), v2.clone())),
	])
	.unwrap();

	HOOK.state.lock().unwrap().armed = true;

	let got = std::thread::scope(|s| {
		let reader = std::thread::Builder::new()
			.name("hc06-reader".into())
			.spawn_scoped(s, || db.get(0, &k1).unwrap())
			.unwrap();
		{
			// Wait until the reader is about to read the head of k1's chain from the file.
			let mut state = HOOK.state.lock().unwrap();
			while !state.reader_paused {
				state = HOOK.cv.wait(state).unwrap();
			}
		}
		// The log worker now logs the queued commit (it will then wait for the reader before it
		// cleans the commit overlay, so it runs on its own thread, as it does in production).
		let worker = std::thread::Builder::new()
			.name("hc06-log-worker".into())
			.spawn_scoped(s, || db.process_commits().unwrap())
			.unwrap();
		{
			// On the code as it is the record is logged right away. An implementation that keeps
			// the log overlay locked for the whole read makes the worker wait for the reader
			// instead: give up waiting after a while and let the reader finish first.
			let deadline = std::time::Instant::now() + std::time::Duration::from_secs(3);
			let mut state = HOOK.state.lock().unwrap();
			while !state.record_logged {
				let now = std::time::Instant::now();
				if now >= deadline {
					break
				}
				state = HOOK.cv.wait_timeout(state, deadline - now).unwrap().0;
			}
			state.release_reader = true;
			HOOK.cv.notify_all();
		}
		let got = reader.join().unwrap();
		worker.join().unwrap();
		got
	});
	HOOK.state.lock().unwrap().armed = false;

	// The read overlapped the removal of k1: either answer "v1" or "not there" is acceptable.
	// Anything else is a value that was never stored under k1.
	match &got {
		None => (),
		Some(v) if *v == v1 => (),
		Some(v) => {
			let head = v.iter().zip(v1.iter()).take_while(|(a, b)| a == b).count();
			let tail_from_v2 = v2.windows(v.len() - head).any(|w| w == &v[head..]);
			panic!(
				"get(k1) returned {} bytes that were never stored under k1 (v1 is {} bytes): the \
				 first {} bytes are the head of v1, the other {} bytes are a piece of v2: {}",
				v.len(),
				v1.len(),
				head,
				v.len() - head,
				tail_from_v2,
			)
		},
	}

	// Afterwards the database itself is consistent.
	step(&db);
	assert_eq!(db.get(0, &k1).unwrap(), None);
	assert_eq!(db.get(0, &k2).unwrap(), Some(v2));
}
