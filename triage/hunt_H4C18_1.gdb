# Schedule for tests/hunt_H4C18_1.rs (run from the crate root):
#
#   cargo test --offline --features instrumentation --test hunt_H4C18_1 --no-run
#   gdb -batch -x tests/hunt_H4C18_1.gdb --args target/debug/deps/hunt_H4C18_1-<hash> \
#       --test-threads=1 --nocapture
#
# 1. the opener thread is stopped in DbInner::open after it has opened <staging>/lock and before
#    it calls try_lock_exclusive on it (src/db.rs:219);
# 2. the main thread alone runs migrate() until it holds its handle on the re-created staging
#    directory (src/migration.rs:62, the statement after Db::open_or_create_in_version);
# 3. the opener thread alone runs until its Db::open has returned;
# 4. everything is released.
set pagination off
set confirm off
set breakpoint pending on
set print thread-events off
handle SIGPIPE nostop noprint pass

break hunt_h4c18_opener_about_to_open
run

python
import gdb

def cur():
    return gdb.selected_thread()

opener = cur()
print("[gdb] opener thread %d is about to call Db::open" % opener.num)
gdb.execute("set scheduler-locking on")

# 1. opener: up to the flock call of DbInner::open
gdb.execute("tbreak src/db.rs:219")
gdb.execute("continue")
assert cur().num == opener.num
print("[gdb] opener stopped before try_lock_exclusive, <staging>/lock is open")
gdb.execute("bt 3")

# 2. main thread (the one blocked in the channel / about to call migrate): run migrate alone
main = None
for t in gdb.selected_inferior().threads():
    if t.num != opener.num:
        t.switch()
        f = gdb.newest_frame()
        names = []
        while f is not None:
            names.append(f.name() or "")
            f = f.older()
        if any("second_handle_on_staging_directory" in n for n in names):
            main = t
            break
assert main is not None, "test thread not found"
main.switch()
gdb.execute("tbreak src/migration.rs:62")
gdb.execute("continue")
assert cur().num == main.num
print("[gdb] migrate() holds its handle on the re-created staging directory")
gdb.execute("bt 2")

# 3. opener alone, until Db::open returned
opener.switch()
gdb.execute("tbreak hunt_h4c18_opener_returned")
gdb.execute("continue")
assert cur().num == opener.num
print("[gdb] the opener's Db::open has returned while migrate() is stopped with its handle alive")

# 4. release
gdb.execute("set scheduler-locking off")
gdb.execute("delete")
gdb.execute("continue")
end
