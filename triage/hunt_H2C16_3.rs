// Property C16: "... after the fault is gone reopening yields a prefix of the committed
// transactions that includes everything synced before the failure."
//
// Violation: log files are not truncated in order when a cleanup fails.
// `Log::clean_logs` first takes a batch of enacted log files out of the cleanup queue and then
// truncates them one by one (`rewind`, `set_len(0)`, `sync_all`). When that fails for the first file
// of the batch the function returns and the rest of the batch is simply forgotten: those files stay
// on disk, complete and valid, but are in no queue any more. The cleanup worker stops with the
// error - but `Db::drop` -> `kill_logs` -> `clean_all_logs` (the error-state path) cleans again and
// truncates the NEWER logs that are in the queue by then. The next open finds the older, already
// enacted log without its successors and replays it over the newer state of the tables.
//
// Default options, all four background threads (`always_flush` only makes every commit use its own
// log file instead of waiting for 64 MiB).
// Fault: fsync(2) on a database file fails with EIO from a certain call on, for ever (a device that
// can not write back any more). Everything else keeps working. The fault is a real errno,
// interposed in this test binary. To get two log files into one cleanup batch the cleanup worker is
// held in msync(2) for a moment (a slow device), and it is held in the failing fsync until one more
// transaction has gone through the pipeline.
//
//  T1 T2 T3 : three log files La Lb Lc are enacted while the cleanup worker is in msync (it went
//             for La alone). It then cleans La (fine) and takes the batch [Lb, Lc]:
//             Lb is truncated, its fsync fails (from now on every fsync fails). Lc is forgotten.
//  T4       : logged, fsynced (fdatasync), enacted while that fsync was pending; its log file is
//             in the cleanup queue.
//  The cleanup worker reports the error; commits are refused. drop: `clean_all_logs` truncates T4's
//  log. Reopen: only Lc is left; T3 is replayed over the tables that already contain T4.
//  T3 and T4 both set the key "shared" (same size, same slot): it reads T3's value, although T4's
//  other key is there - the state is not a prefix; T4 was fsynced before the failure.
//
// Run: cargo test --offline --features instrumentation --test hunt_H2C16_3

use parity_db::{Db, Options};
use std::{
	sync::atomic::{AtomicBool, AtomicI64, AtomicUsize, Ordering::SeqCst},
	time::{Duration, Instant},
};

const MARKER: &[u8] = b"hunt_H2C16_db";

static MSYNC_GATE_ARMED: AtomicBool = AtomicBool::new(false);
static MSYNC_GATE_ENTERED: AtomicBool = AtomicBool::new(false);
static MSYNC_GATE_RELEASE: AtomicBool = AtomicBool::new(false);

// Number of fsync calls that still succeed once armed; the next one waits for the release and fails,
// as does every later one.
static FSYNC_ARMED: AtomicBool = AtomicBool::new(false);
static FSYNC_OK_LEFT: AtomicI64 = AtomicI64::new(0);
static FSYNC_GATE_ENTERED: AtomicBool = AtomicBool::new(false);
static FSYNC_GATE_RELEASE: AtomicBool = AtomicBool::new(false);
static FSYNC_FAILING: AtomicBool = AtomicBool::new(false);

static ENACTED: AtomicUsize = AtomicUsize::new(0);

fn is_db_fd(fd: libc::c_int) -> bool {
	if fd <= 2 {
		return false
	}
	let mut link = [0u8; 64];
	let name = format!("/proc/self/fd/{fd}\0");
	let mut buf = [0u8; 512];
	link[..name.len()].copy_from_slice(name.as_bytes());
	let n = unsafe {
		libc::readlink(link.as_ptr() as *const libc::c_char, buf.as_mut_ptr() as *mut _, buf.len())
	};
	if n <= 0 {
		return false
	}
	buf[..n as usize].windows(MARKER.len()).any(|w| w == MARKER)
}

fn spin_until(flag: &AtomicBool) {
	while !flag.load(SeqCst) {
		std::thread::sleep(Duration::from_millis(1));
	}
}

#[no_mangle]
pub unsafe extern "C" fn fsync(fd: libc::c_int) -> libc::c_int {
	if is_db_fd(fd) {
		if FSYNC_ARMED.load(SeqCst) &&
			FSYNC_OK_LEFT.fetch_sub(1, SeqCst) <= 0 &&
			FSYNC_ARMED.swap(false, SeqCst)
		{
			FSYNC_GATE_ENTERED.store(true, SeqCst);
			spin_until(&FSYNC_GATE_RELEASE);
			FSYNC_FAILING.store(true, SeqCst);
		}
		if FSYNC_FAILING.load(SeqCst) {
			*libc::__errno_location() = libc::EIO;
			return -1
		}
	}
	libc::syscall(libc::SYS_fsync, fd) as libc::c_int
}

#[no_mangle]
pub unsafe extern "C" fn msync(
	addr: *mut libc::c_void,
	len: libc::size_t,
	flags: libc::c_int,
) -> libc::c_int {
	if MSYNC_GATE_ARMED.swap(false, SeqCst) {
		MSYNC_GATE_ENTERED.store(true, SeqCst);
		spin_until(&MSYNC_GATE_RELEASE);
	}
	libc::syscall(libc::SYS_msync, addr, len, flags) as libc::c_int
}

// Only used to see how far the commit worker is.
struct Progress;

impl log::Log for Progress {
	fn enabled(&self, _: &log::Metadata) -> bool {
		true
	}
	fn log(&self, record: &log::Record) {
		let text = format!("{}", record.args());
		if record.level() <= log::Level::Warn || std::env::var_os("H2C16_LOG").is_some() {
			eprintln!("[{:?}] {} {}", std::thread::current().id(), record.level(), text);
		}
		if text.starts_with("Enacted log record") {
			ENACTED.fetch_add(1, SeqCst);
		}
	}
	fn flush(&self) {}
}

fn wait_for(what: &str, timeout: Duration, mut f: impl FnMut() -> bool) -> bool {
	let start = Instant::now();
	while start.elapsed() < timeout {
		if f() {
			return true
		}
		std::thread::sleep(Duration::from_millis(2));
	}
	eprintln!("(timed out waiting for: {what})");
	false
}

fn logs_all_empty(dir: &std::path::Path) -> bool {
	let mut any = false;
	for e in std::fs::read_dir(dir).unwrap().filter_map(|e| e.ok()) {
		if e.file_name().to_string_lossy().starts_with("log") {
			any = true;
			if e.metadata().map(|m| m.len()).unwrap_or(1) != 0 {
				return false
			}
		}
	}
	any
}

#[test]
fn older_log_survives_a_newer_one_and_is_replayed_over_it() {
	log::set_logger(&Progress).unwrap();
	log::set_max_level(log::LevelFilter::Debug);

	let dir = tempfile::Builder::new()
		.prefix("hunt_H2C16_db")
		.tempdir_in(env!("CARGO_TARGET_TMPDIR"))
		.unwrap();
	let mut options = Options::with_columns(dir.path(), 1);
	options.always_flush = true;

	let shared = b"shared".to_vec();
	let tx = |n: u8| {
		vec![
			(0u8, format!("key {n}").into_bytes(), Some(vec![n; 100])),
			(0u8, shared.clone(), Some(vec![n; 100])),
		]
	};
	let enacted = |n: usize| move || ENACTED.load(SeqCst) >= n;

	let db = Db::open_or_create(&options).unwrap();

	// T0: everything is created, the pipeline is idle again.
	db.commit(tx(0)).unwrap();
	assert!(wait_for("T0 cleaned", Duration::from_secs(10), || {
		ENACTED.load(SeqCst) >= 1 && logs_all_empty(dir.path())
	}));
	std::thread::sleep(Duration::from_millis(200));

	// T1: the cleanup worker goes for its log file and is slow flushing the tables.
	MSYNC_GATE_ARMED.store(true, SeqCst);
	db.commit(tx(1)).unwrap();
	assert!(wait_for("cleanup worker in msync", Duration::from_secs(10), || {
		MSYNC_GATE_ENTERED.load(SeqCst)
	}));
	// T2, T3 are enacted meanwhile (one after the other, so that each has its own log file).
	db.commit(tx(2)).unwrap();
	assert!(wait_for("T2 enacted", Duration::from_secs(10), enacted(3)));
	db.commit(tx(3)).unwrap();
	assert!(wait_for("T3 enacted", Duration::from_secs(10), enacted(4)));
	std::thread::sleep(Duration::from_millis(100));

	// The cleanup worker goes on: T1's log is cleaned, then the batch [T2's log, T3's log]; the fsync
	// after truncating T2's log hangs and will fail.
	FSYNC_OK_LEFT.store(1, SeqCst);
	FSYNC_ARMED.store(true, SeqCst);
	MSYNC_GATE_RELEASE.store(true, SeqCst);
	assert!(wait_for("cleanup worker in the failing fsync", Duration::from_secs(10), || {
		FSYNC_GATE_ENTERED.load(SeqCst)
	}));

	// T4 goes through the whole pipeline.
	db.commit(tx(4)).unwrap();
	assert!(wait_for("T4 enacted", Duration::from_secs(10), enacted(5)));
	std::thread::sleep(Duration::from_millis(100));

	// fsync fails from now on.
	FSYNC_GATE_RELEASE.store(true, SeqCst);
	assert!(
		wait_for("commits are refused", Duration::from_secs(10), || {
			db.commit(Vec::<(u8, Vec<u8>, Option<Vec<u8>>)>::new()).is_err()
		}),
		"the failure must be reported: later commits are refused"
	);
	eprintln!("commit now returns: {}", db.commit(tx(9)).unwrap_err());

	// Reads keep working.
	for n in 0..=4u8 {
		assert_eq!(db.get(0, format!("key {n}").as_bytes()).unwrap(), Some(vec![n; 100]));
	}
	assert_eq!(db.get(0, &shared).unwrap(), Some(vec![4u8; 100]));

	// Shutdown with the fault present, restart without it.
	drop(db);
	FSYNC_FAILING.store(false, SeqCst);
	let db = Db::open(&options).expect("reopen");
	let keys: Vec<bool> =
		(0..=4u8).map(|n| db.get(0, format!("key {n}").as_bytes()).unwrap().is_some()).collect();
	let got_shared = db.get(0, &shared).unwrap().map(|v| v[0]);
	eprintln!("after reopen: keys present {keys:?}, shared = {got_shared:?}");
	// T0..T4 were all logged, fsynced and enacted before the failure.
	assert_eq!(keys, vec![true; 5]);
	assert_eq!(
		got_shared,
		Some(4),
		"the key of T4 is there, but the key written by T3 and T4 has the value of T3: \
		 the state after reopening is not a prefix of the committed transactions"
	);
}
