// HC04 finding 1: an iterator standing at the start position answers `prev()` with the empty
// key once a commit has been processed in between, instead of with nothing.
//
// Run: cargo test --offline --features instrumentation --test hunt_HC04_1
#![cfg(feature = "instrumentation")]

use parity_db::{Db, Options};

fn options(path: &std::path::Path) -> Options {
	let mut options = Options::with_columns(path, 1);
	options.columns[0].btree_index = true;
	options.with_background_thread = false;
	options.always_flush = true;
	options
}

#[test]
fn prev_at_start_after_commit_returns_empty_key() {
	let tmp = tempfile::tempdir().unwrap();
	let db = Db::open_or_create(&options(tmp.path())).unwrap();

	// Two keys, one of them the empty key, moved to the tree (log overlay).
	db.commit(vec![(0u8, vec![], Some(b"empty".to_vec())), (0u8, vec![1u8], Some(b"one".to_vec()))])
		.unwrap();
	db.process_commits().unwrap();

	let mut iter = db.iter(0).unwrap();
	iter.seek_to_first().unwrap();
	assert_eq!(iter.next().unwrap(), Some((vec![], b"empty".to_vec())));
	// Nothing is smaller than the empty key: the iterator is now at the start position.
	assert_eq!(iter.prev().unwrap(), None);
	// Still nothing when asked again on the unchanged database.
	assert_eq!(iter.prev().unwrap(), None);

	// An unrelated key is committed and processed while the iterator is open.
	db.commit(vec![(0u8, vec![2u8], Some(b"two".to_vec()))]).unwrap();
	db.process_commits().unwrap();

	// From the start position a backward step must still yield nothing.
	assert_eq!(
		iter.prev().unwrap(),
		None,
		"prev() from the start position returned a key after a commit was processed"
	);
	// And a forward step yields the first key.
	assert_eq!(iter.next().unwrap(), Some((vec![], b"empty".to_vec())));
}
