#![cfg(feature = "instrumentation")]
//! C13: when the OLDEST not-yet-applied log file is missing, empty or shorter than a record
//! header, the records of the following files are applied although their predecessor never was.
//!
//! Tables hold r1 {k0} (enacted, log cleaned). log1 = [r2 {k1}], log2 = [r3 {k2}], log0 = [r4 {k3}]
//! (file numbers do not matter, the chain is ordered by first record id); none of r2..r4 enacted.
//! The file holding r2 is deleted / truncated to 0 / truncated to 5 bytes in the crash image.
//! A correct open applies nothing (r3 does not follow what the tables hold).
//!
//! Second scenario (`*_index_growth_*`): the chain consists of the two batch records of an index
//! growth; with the first one gone the second one alone deletes the old index and 8192 keys that
//! were committed and enacted long before become unreadable.
//!
//! cargo test --offline --features instrumentation --test hunt_H2C13_2

use parity_db::{Db, Options};
use std::path::{Path, PathBuf};

fn options(path: &Path) -> Options {
	let mut o = Options::with_columns(path, 1);
	o.with_background_thread = false;
	o.always_flush = true;
	o.salt = Some([0; 32]);
	o
}

fn copy_dir(from: &Path, to: &Path) {
	std::fs::create_dir_all(to).unwrap();
	for e in std::fs::read_dir(from).unwrap() {
		let e = e.unwrap();
		if e.file_name() == "lock" {
			continue
		}
		std::fs::copy(e.path(), to.join(e.file_name())).unwrap();
	}
}

/// Returns the log files of the image ordered by the id of their first record.
fn make_image(image: &Path) -> Vec<(u64, PathBuf)> {
	let live = tempfile::tempdir().unwrap();
	let db = Db::open_or_create(&options(live.path())).unwrap();
	// r1: applied to the tables, its log file truncated.
	db.commit(vec![(0u8, b"k0".to_vec(), Some(b"v0".to_vec()))]).unwrap();
	db.process_commits().unwrap();
	db.flush_logs().unwrap();
	db.enact_logs().unwrap();
	db.clean_logs().unwrap();
	// r2, r3, r4: logged and flushed, one file each, not enacted.
	for (k, v) in [(b"k1", b"v1"), (b"k2", b"v2"), (b"k3", b"v3")] {
		db.commit(vec![(0u8, k.to_vec(), Some(v.to_vec()))]).unwrap();
		db.process_commits().unwrap();
		db.flush_logs().unwrap();
	}
	copy_dir(live.path(), image);
	drop(db);

	let mut logs = Vec::new();
	for e in std::fs::read_dir(image).unwrap() {
		let e = e.unwrap();
		if e.file_name().to_str().unwrap().starts_with("log") && e.metadata().unwrap().len() >= 9 {
			let b = std::fs::read(e.path()).unwrap();
			assert_eq!(b[0], 1);
			logs.push((u64::from_le_bytes(b[1..9].try_into().unwrap()), e.path()));
		}
	}
	logs.sort();
	assert_eq!(logs.iter().map(|l| l.0).collect::<Vec<_>>(), vec![2, 3, 4]);
	logs
}

fn state(db: &Db) -> [bool; 4] {
	let has = |k: &[u8], v: &[u8]| db.get(0, k).unwrap() == Some(v.to_vec());
	[has(b"k0", b"v0"), has(b"k1", b"v1"), has(b"k2", b"v2"), has(b"k3", b"v3")]
}

fn run(damage: impl Fn(&Path)) -> [bool; 4] {
	let tmp = tempfile::tempdir().unwrap();
	let image = tmp.path().join("image");
	let logs = make_image(&image);
	damage(&logs[0].1);
	let db = Db::open(&options(&image)).unwrap();
	state(&db)
}

fn assert_prefix(s: [bool; 4]) {
	assert!(s[0], "the enacted base record is lost: {s:?}");
	assert!(
		(s[1] || !s[2]) && (s[2] || !s[3]),
		"not a prefix of r1..r4 (k0,k1,k2,k3 present = {s:?}): a record was applied whose predecessor was not"
	);
}

#[test]
fn control_intact_chain() {
	assert_eq!(run(|_| ()), [true, true, true, true]);
}

#[test]
fn control_head_file_damaged_in_place() {
	// Same file, damaged but still carrying its record id: everything after it is dropped.
	let s = run(|p| {
		let mut b = std::fs::read(p).unwrap();
		let n = b.len();
		b[n - 1] ^= 1;
		std::fs::write(p, b).unwrap();
	});
	assert_eq!(s, [true, false, false, false]);
}

#[test]
fn head_file_deleted() {
	assert_prefix(run(|p| std::fs::remove_file(p).unwrap()));
}

#[test]
fn head_file_zero_length() {
	assert_prefix(run(|p| std::fs::File::create(p).unwrap().set_len(0).unwrap()));
}

/// Consequence for data that was in the tables long before: an index growth (16 -> 17 bits) is
/// in progress, its two batch records `[batch 1]`, `[batch 2 + drop of the old index]` are logged,
/// not enacted. Reindex records carry no user data - every key was committed AND enacted before -
/// so whatever happens to these log files every key must stay readable. With the file of batch 1
/// gone, batch 2 is applied alone and deletes `index_00_16`: the keys of batch 1 are lost for good.
fn index_growth_case(delete_head: bool) -> (usize, usize) {
	fn opts(path: &Path) -> Options {
		let mut o = options(path);
		o.columns[0].uniform = true;
		o
	}
	fn key(i: u32) -> Vec<u8> {
		let mut k = vec![0u8; 32];
		k[0..4].copy_from_slice(&i.wrapping_mul(0x9E37_79B1).to_be_bytes());
		k[4..8].copy_from_slice(&i.to_be_bytes());
		k
	}
	// 65 keys in chunk 0x1234 of the 16 bit index; they differ in bit 17.
	fn hot(i: u32) -> Vec<u8> {
		let mut k = vec![0xffu8; 32];
		k[0] = 0x12;
		k[1] = 0x34;
		k[2..6].copy_from_slice(&i.reverse_bits().to_be_bytes());
		k
	}
	let keys: Vec<Vec<u8>> = (0..9000).map(key).chain((0..65).map(hot)).collect();

	let tmp = tempfile::tempdir().unwrap();
	let live = tmp.path().join("live");
	let image = tmp.path().join("image");
	let db = Db::open_or_create(&opts(&live)).unwrap();
	let n = keys.len();
	db.commit(keys[..n - 1].iter().map(|k| (0u8, k.clone(), Some(k[..8].to_vec())))).unwrap();
	db.process_commits().unwrap();
	db.flush_logs().unwrap();
	db.enact_logs().unwrap();
	db.clean_logs().unwrap();
	// The 65th key of the hot chunk starts the growth; enacted as well.
	db.commit(vec![(0u8, keys[n - 1].clone(), Some(keys[n - 1][..8].to_vec()))]).unwrap();
	db.process_commits().unwrap();
	db.flush_logs().unwrap();
	db.enact_logs().unwrap();
	db.clean_logs().unwrap();
	for k in &keys {
		assert_eq!(db.get(0, k).unwrap(), Some(k[..8].to_vec()));
	}
	// Two reindex records, one file each, not enacted.
	db.process_reindex().unwrap();
	db.flush_logs().unwrap();
	db.process_reindex().unwrap();
	db.flush_logs().unwrap();
	copy_dir(&live, &image);
	drop(db);

	let mut logs = Vec::new();
	for e in std::fs::read_dir(&image).unwrap() {
		let e = e.unwrap();
		if e.file_name().to_str().unwrap().starts_with("log") && e.metadata().unwrap().len() >= 9 {
			let b = std::fs::read(e.path()).unwrap();
			logs.push((u64::from_le_bytes(b[1..9].try_into().unwrap()), e.path(), b));
		}
	}
	logs.sort();
	assert_eq!(logs.len(), 2, "two reindex records in two files");
	assert!(image.join("index_00_16").exists() && image.join("index_00_17").exists());
	// batch 2 ends with DROP_TABLE(5) i00-16 END_RECORD(4) crc
	let b = &logs[1].2;
	assert_eq!(&b[b.len() - 8..b.len() - 4], &[5, 16, 0, 4]);

	if delete_head {
		std::fs::remove_file(&logs[0].1).unwrap();
	}
	let db = Db::open(&opts(&image)).unwrap();
	let lost = keys.iter().filter(|k| db.get(0, k).unwrap() != Some(k[..8].to_vec())).count();
	(lost, n)
}

#[test]
fn control_index_growth_intact_chain() {
	assert_eq!(index_growth_case(false).0, 0);
}

#[test]
fn head_file_deleted_during_index_growth_loses_enacted_keys() {
	let (lost, n) = index_growth_case(true);
	assert_eq!(lost, 0, "{lost} of {n} keys that were committed and enacted are no longer readable");
}

#[test]
fn head_file_shorter_than_record_header() {
	assert_prefix(run(|p| {
		std::fs::OpenOptions::new().write(true).open(p).unwrap().set_len(5).unwrap()
	}));
}
