// C13: "... any bits flipped ... applies nothing after the first invalid one, and leaves a state
// that is a prefix of the committed transactions" (quantifier: "every single-bit corruption").
//
// Three commits r1, r2, r3 are logged and flushed, one log file each (log0, log1, log2), none is
// enacted; crash image. ONE bit is flipped in the record-id field (bytes 1..9) of the first
// record of log0, i.e. r1 is damaged in place. `Log::open` orders the replay queue by exactly these
// unverified bytes, so for every flip that makes the number larger than 1 the damaged file moves
// behind the intact ones, `DbInner::open` takes "first id found - 1" (= 1) as the position of the
// tables and r2, r3 are applied without r1. For 63 of the 64 bits (all but the one that turns the id into 0) the database comes up with
// k2 and k3 present and k1 absent: not a prefix, and records after the invalid one were applied.
//
// (Same root as the recorded "missing head file" finding - nothing persistent says where the tables
// are - but the input is an in-place single-bit corruption, which that finding lists as the
// well-behaved control.)
//
// cargo test --offline --features instrumentation --test hunt_H3C13_2

use parity_db::{ColumnOptions, Db, Options};
use std::path::Path;

fn options(path: &Path) -> Options {
	let mut o = Options::with_columns(path, 1);
	o.columns[0] = ColumnOptions { uniform: true, ..Default::default() };
	o.salt = Some([0; 32]);
	o.with_background_thread = false;
	o.stats = false;
	o
}

fn key(n: u8) -> [u8; 32] {
	let mut k = [0u8; 32];
	k[0] = n;
	k[31] = 1;
	k
}

fn copy_dir(from: &Path, to: &Path) {
	std::fs::create_dir_all(to).unwrap();
	for e in std::fs::read_dir(from).unwrap() {
		let e = e.unwrap();
		if e.file_name() != "lock" {
			std::fs::copy(e.path(), to.join(e.file_name())).unwrap();
		}
	}
}

// Returns the crash image: log0 = [r1 {k1}], log1 = [r2 {k2}], log2 = [r3 {k3}], tables empty.
fn image(root: &Path) -> std::path::PathBuf {
	let dir = root.join("db");
	let db = Db::open_or_create(&options(&dir)).unwrap();
	for i in 1..=3u8 {
		db.commit(vec![(0u8, key(i), Some(vec![i; 10]))]).unwrap();
		db.process_commits().unwrap();
		db.flush_logs().unwrap();
	}
	let img = root.join("image");
	copy_dir(&dir, &img);
	drop(db);
	for (n, f) in ["log0", "log1", "log2"].iter().enumerate() {
		let l = std::fs::read(img.join(f)).unwrap();
		assert_eq!(l[0], 1);
		assert_eq!(u64::from_le_bytes(l[1..9].try_into().unwrap()), n as u64 + 1);
	}
	img
}

fn present(dir: &Path) -> Vec<bool> {
	let db = Db::open(&options(dir)).unwrap();
	(1..=3u8).map(|i| db.get(0, &key(i)).unwrap() == Some(vec![i; 10])).collect()
}

fn is_prefix(p: &[bool]) -> bool {
	// once a commit is missing all later ones must be missing
	p.windows(2).all(|w| w[0] || !w[1])
}

#[test]
fn control_intact_chain_and_flip_outside_the_id() {
	let tmp = tempfile::tempdir().unwrap();
	let img = image(tmp.path());
	let a = tmp.path().join("a");
	copy_dir(&img, &a);
	assert_eq!(present(&a), vec![true, true, true]);
	// a flipped bit in the body of r1: everything is dropped, as specified
	let b = tmp.path().join("b");
	copy_dir(&img, &b);
	let mut l = std::fs::read(b.join("log0")).unwrap();
	let at = l.len() - 1;
	l[at] ^= 1;
	std::fs::write(b.join("log0"), l).unwrap();
	assert_eq!(present(&b), vec![false, false, false]);
}

#[test]
fn one_bit_flipped_in_the_id_of_the_oldest_record() {
	let tmp = tempfile::tempdir().unwrap();
	let img = image(tmp.path());
	let log0 = std::fs::read(img.join("log0")).unwrap();
	let mut bad = vec![];
	for byte in 1..9usize {
		for bit in 0..8u8 {
			let dir = tmp.path().join(format!("c{}_{}", byte, bit));
			copy_dir(&img, &dir);
			let mut l = log0.clone();
			l[byte] ^= 1 << bit;
			std::fs::write(dir.join("log0"), l).unwrap();
			let p = present(&dir);
			if !is_prefix(&p) {
				bad.push((byte, bit, p));
			}
			std::fs::remove_dir_all(&dir).unwrap();
		}
	}
	assert!(
		bad.is_empty(),
		"{} of 64 single-bit flips leave a state that is not a prefix (k1,k2,k3 present): {:?}",
		bad.len(),
		&bad[..bad.len().min(4)]
	);
}
