// h6C06 finding 1: `migrate` (the administration call that re-populates a column under new
// settings, e.g. another compression) silently loses every value whose index entry still sits in
// an older index generation of the source, i.e. whenever the source was closed while its index
// was growing.
//
//   cargo test --offline --test hunt_h6C06_1
//
// Public API and production configuration only (background workers, no `instrumentation`).
//
// Session 1: two commits with 65 keys in all, whose hashed keys share their first 16 bits (found by brute
// force for the salt given in `Options::salt`; the test checks the collision itself), then the
// handle is dropped. The 65th insert overflows the index chunk and starts the growth 16 -> 17 bits.
// The reindex does not run in this session: it waits for the enactment of the record that started
// it, and a log of less than 64 MiB is only flushed and enacted by the shutdown, which does not
// reindex (`Db::log_worker` leaves its loop with work left, `kill_logs` has no reindex step; the
// growth is meant to be resumed by the next open). On disk: index_00_16 (64 entries) and
// index_00_17 (1 entry) - the test asserts that.
//
// `migrate` then opens the source (the reindex resumes on the source's log worker) and walks
// `iter_column_index_while` -> `HashColumn::iter_index_internal`, which reads the CURRENT index
// generation only. The 64 entries that are still in the queued table are never visited.
//
// The logger below only widens the window: it delays every reindex batch by one second (sleep on
// the debug message "Continue reindex at") so that the outcome does not depend on thread timing;
// the failure shows without it as well (the resumed reindex first scans all 65536 chunks of the
// old table, the enumeration starts at chunk 0 at once). An implementation that visits every
// index generation, or that lets the pending reindex finish before it enumerates, passes with or
// without the delay.

use blake2::{
	digest::{typenum::U32, FixedOutput, Update},
	Blake2bMac,
};
use parity_db::{ColumnOptions, CompressionType, Db, Options};
use std::collections::BTreeMap;

const SALT: [u8; 32] = [0x11; 32];

// `key-<n>` for these n: blake2b-mac(SALT, key)[0..2] == [0, 0].
const COLLIDING: [u32; 65] = [
	176978, 184184, 193345, 200830, 246178, 369968, 420111, 438785, 475148, 596218, 598226, 863533,
	867524, 874200, 928782, 984071, 1007584, 1146170, 1195595, 1320864, 1324672, 1465882, 1603886,
	1717080, 1738712, 1929713, 1975640, 1981478, 2045982, 2065518, 2147459, 2181927, 2208106,
	2220454, 2283243, 2548709, 2632302, 2779176, 2842588, 2961699, 3029265, 3183684, 3406693,
	3446198, 3527876, 3689817, 3854545, 3967470, 3986070, 3997080, 4017924, 4047994, 4056297,
	4087908, 4109230, 4122552, 4154025, 4155684, 4312147, 4479856, 4531585, 4541269, 4566877,
	4571526, 4696531,
];

struct DelayReindex;
impl log::Log for DelayReindex {
	fn enabled(&self, m: &log::Metadata) -> bool {
		m.level() <= log::Level::Debug
	}
	fn log(&self, r: &log::Record) {
		if r.level() == log::Level::Debug && format!("{}", r.args()).contains("Continue reindex at") {
			std::thread::sleep(std::time::Duration::from_millis(1000));
		}
	}
	fn flush(&self) {}
}
static LOGGER: DelayReindex = DelayReindex;

fn key(i: usize) -> Vec<u8> {
	format!("key-{}", COLLIDING[i]).into_bytes()
}

fn value(i: usize) -> Vec<u8> {
	// empty, one small entry, compressible single entry, chained (multipart) value, misc.
	let len = match i % 5 {
		0 => 0,
		1 => 40,
		2 => 5000,
		3 => 40_000,
		_ => 100 + i,
	};
	(0..len).map(|j| ((j / 7) as u8) ^ (i as u8)).collect()
}

fn old_settings(path: &std::path::Path) -> Options {
	let mut o = Options::with_columns(path, 1);
	o.salt = Some(SALT);
	o
}

fn new_settings(path: &std::path::Path) -> Options {
	let mut to = Options::with_columns(path, 1);
	to.columns[0] = ColumnOptions { compression: CompressionType::Lz4, ..Default::default() };
	to.compression_threshold.insert(0, 0);
	to
}

fn build_source(src: &std::path::Path) -> BTreeMap<Vec<u8>, Vec<u8>> {
	// The keys do share a chunk of the 16 bit index (same hash as `column::hash_key`).
	for i in 0..65 {
		let mut ctx = Blake2bMac::<U32>::new_with_salt_and_personal(&SALT, &[], &[]).unwrap();
		ctx.update(&key(i));
		let h = ctx.finalize_fixed();
		assert_eq!(&h[0..2], &[0, 0]);
	}
	let mut model = BTreeMap::new();
	{
		let db = Db::open_or_create(&old_settings(src)).unwrap();
		// Two transactions: the reindex is held back until the record that started it is enacted,
		// except when that is the very first record of a session.
		db.commit((0..10).map(|i| (0u8, key(i), Some(value(i))))).unwrap();
		db.commit((10..65).map(|i| (0u8, key(i), Some(value(i))))).unwrap();
		for i in 0..65 {
			model.insert(key(i), value(i));
		}
		for (k, v) in &model {
			assert_eq!(db.get(0, k).unwrap().as_ref(), Some(v));
		}
	}
	let mut files: Vec<_> = std::fs::read_dir(src)
		.unwrap()
		.map(|e| e.unwrap().file_name().into_string().unwrap())
		.filter(|n| n.starts_with("index"))
		.collect();
	files.sort();
	assert_eq!(files, ["index_00_16", "index_00_17"], "the index growth is under way");
	model
}

fn check(db: &Db, model: &BTreeMap<Vec<u8>, Vec<u8>>, what: &str) {
	let mut missing = 0;
	for (k, v) in model {
		match db.get(0, k).unwrap() {
			Some(got) => assert_eq!(&got, v, "{what}: a value that is there is exact"),
			None => missing += 1,
		}
	}
	assert_eq!(missing, 0, "{what}: {missing} of {} values are gone after migrate", model.len());
}

fn init_log() {
	let _ = log::set_logger(&LOGGER);
	log::set_max_level(log::LevelFilter::Debug);
}

// Control: the source as it was left serves every value (and stays usable).
#[test]
fn control_reopen_serves_every_value() {
	init_log();
	let dir = tempfile::tempdir().unwrap();
	let src = dir.path().join("src");
	let model = build_source(&src);
	let db = Db::open(&old_settings(&src)).unwrap();
	check(&db, &model, "plain reopen");
}

#[test]
fn migrate_to_new_directory_keeps_every_value() {
	init_log();
	let dir = tempfile::tempdir().unwrap();
	let src = dir.path().join("src");
	let dst = dir.path().join("dst");
	let model = build_source(&src);
	let to = new_settings(&dst);
	parity_db::migrate(&src, to.clone(), false, &[]).unwrap();
	let db = Db::open(&to).unwrap();
	check(&db, &model, "migrate into a new directory (none -> lz4)");
}

#[test]
fn migrate_in_place_keeps_every_value() {
	init_log();
	let dir = tempfile::tempdir().unwrap();
	let src = dir.path().join("src");
	let model = build_source(&src);
	let to = new_settings(&dir.path().join("ignored"));
	parity_db::migrate(&src, to, true, &[]).unwrap();
	let db = Db::open(&new_settings(&src)).unwrap();
	check(&db, &model, "migrate in place (none -> lz4)");
}
