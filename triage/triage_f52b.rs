// H2C07 finding 1: a ref-counted hash column opened with a `salt` option that differs from the
// salt stored in the metadata hashes the keys of commits with the option's salt and the keys of
// lookups with the stored salt. Keys set in such a session have a positive count and are not
// readable, references to present keys are ignored, and value iteration reports values that
// `get` denies.
//
// Run: cargo test --offline --features instrumentation --test hunt_H2C07_1
// (the test does not need the feature, it also runs without it)
//
// A correct implementation either refuses to open the database with a salt that is not the
// stored one (the test accepts that), or keeps using the stored salt for everything.

use parity_db::{ColumnOptions, Db, Operation, Options};

const K1: &[u8] = b"key one";
const V1: &[u8] = b"value of key one";
const K2: &[u8] = b"key two";
const V2: &[u8] = b"value of key two, a little longer";

fn options(path: &std::path::Path, salt: [u8; 32]) -> Options {
	let mut o = Options::with_columns(path, 1);
	o.columns[0] = ColumnOptions { preimage: true, ref_counted: true, ..Default::default() };
	o.salt = Some(salt);
	o
}

fn values_and_counts(db: &Db) -> Vec<(Vec<u8>, u32)> {
	let mut seen = Vec::new();
	db.iter_column_while(0, |s| {
		seen.push((s.value, s.rc));
		true
	})
	.unwrap();
	seen.sort();
	seen
}

#[test]
fn reopen_with_a_salt_option_that_is_not_the_stored_salt() {
	let dir = tempfile::tempdir().unwrap();
	{
		let db = Db::open_or_create(&options(dir.path(), [1; 32])).unwrap();
		db.commit_changes(vec![(0u8, Operation::Set(K1.to_vec(), V1.to_vec()))]).unwrap();
		assert_eq!(db.get(0, K1).unwrap(), Some(V1.to_vec()));
	}

	// Second session: the caller passes another salt. Refusing to open is fine.
	let db = match Db::open(&options(dir.path(), [2; 32])) {
		Ok(db) => db,
		Err(_) => return,
	};
	// The database still answers with the stored salt.
	assert_eq!(db.get(0, K1).unwrap(), Some(V1.to_vec()), "k1 (count 1) after the reopen");

	// k2: count 0 -> 1. A key with a positive count is always readable.
	db.commit_changes(vec![(0u8, Operation::Set(K2.to_vec(), V2.to_vec()))]).unwrap();
	let k2_queued = db.get(0, K2).unwrap();
	// k1 is present: the reference raises its count to 2.
	db.commit_changes(vec![(0u8, Operation::Reference(K1.to_vec()))]).unwrap();
	drop(db);

	// Clean restart: everything accepted is in the tables now.
	let db = Db::open(&options(dir.path(), [2; 32])).unwrap();
	let k1 = db.get(0, K1).unwrap();
	let k2 = db.get(0, K2).unwrap();
	let iterated = values_and_counts(&db);
	let expected = {
		let mut e = vec![(V1.to_vec(), 2u32), (V2.to_vec(), 1u32)];
		e.sort();
		e
	};
	assert_eq!(
		(k2_queued, k1, k2, iterated),
		(Some(V2.to_vec()), Some(V1.to_vec()), Some(V2.to_vec()), expected),
		"(get k2 while queued, get k1, get k2, values with counts) after a clean restart"
	);
}
