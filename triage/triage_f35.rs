// HC13 finding 3: replay always starts at the oldest log file still on disk and has no notion of
// what the tables already contain. Enacted log files are kept around (16 of them with
// `sync_data = false`; until the cleanup stage runs otherwise). If a record in the middle of
// that already-enacted chain is damaged, the records before it are re-applied over the newer
// table contents and the records after it - which the tables already hold - are not, so the
// open leaves a state OLDER than what the tables held and that is not a prefix of the history.
//
// Run: cargo test --offline --features instrumentation --test hunt_HC13_3

#![cfg(feature = "instrumentation")]

use parity_db::{ColumnOptions, Db, Options};
use std::path::{Path, PathBuf};

fn options(path: &Path) -> Options {
	let mut o = Options::with_columns(path, 1);
	o.columns[0] = ColumnOptions { uniform: true, ..Default::default() };
	o.salt = Some([0; 32]);
	o.sync_data = false;
	o.with_background_thread = false;
	o
}

fn copy_db(from: &Path, to: &Path) {
	std::fs::create_dir_all(to).unwrap();
	for e in std::fs::read_dir(from).unwrap() {
		let e = e.unwrap();
		if e.file_name() == "lock" {
			continue
		}
		std::fs::copy(e.path(), to.join(e.file_name())).unwrap();
	}
}

fn key(b: u8) -> Vec<u8> {
	vec![b; 32]
}

fn step(db: &Db) {
	db.process_commits().unwrap();
	db.flush_logs().unwrap();
	db.enact_logs().unwrap();
	db.clean_logs().unwrap();
}

fn build(tmp: &Path) -> PathBuf {
	let live = tmp.join("live");
	let crash = tmp.join("crash");
	let db = Db::open_or_create(&options(&live)).unwrap();
	db.commit(vec![(0u8, key(1), Some(b"k1-old".to_vec()))]).unwrap();
	step(&db);
	db.commit(vec![(0u8, key(2), Some(b"k2".to_vec()))]).unwrap();
	step(&db);
	db.commit(vec![
		(0u8, key(1), Some(b"k1-new".to_vec())),
		(0u8, key(3), Some(b"k3".to_vec())),
	])
	.unwrap();
	step(&db);
	// Everything is enacted: the tables hold the state after the third commit.
	copy_db(&live, &crash);
	drop(db);
	for (n, id) in [(0, 1u64), (1, 2), (2, 3)] {
		let bytes = std::fs::read(crash.join(format!("log{n}"))).unwrap();
		assert_eq!(bytes[0], 1);
		assert_eq!(u64::from_le_bytes(bytes[1..9].try_into().unwrap()), id);
	}
	crash
}

fn check(crash: &Path) {
	let db = Db::open(&options(crash)).unwrap();
	let k1 = db.get(0, &key(1)).unwrap();
	let k2 = db.get(0, &key(2)).unwrap();
	let k3 = db.get(0, &key(3)).unwrap();
	// The tables held commit 3 before the open; the result may not be older than that.
	assert_eq!(
		(k1.as_deref(), k2.as_deref(), k3.as_deref()),
		(Some(&b"k1-new"[..]), Some(&b"k2"[..]), Some(&b"k3"[..])),
		"state after open is older than what the tables held / not a prefix of the history"
	);
}

#[test]
fn control_undamaged() {
	let tmp = tempfile::tempdir().unwrap();
	let crash = build(tmp.path());
	check(&crash);
}

#[test]
fn bit_flip_in_middle_enacted_record() {
	let tmp = tempfile::tempdir().unwrap();
	let crash = build(tmp.path());
	let log = crash.join("log1");
	let mut bytes = std::fs::read(&log).unwrap();
	let n = bytes.len();
	bytes[n - 10] ^= 0x04;
	std::fs::write(&log, bytes).unwrap();
	check(&crash);
}

#[test]
fn truncated_middle_enacted_record() {
	let tmp = tempfile::tempdir().unwrap();
	let crash = build(tmp.path());
	let log = crash.join("log1");
	let bytes = std::fs::read(&log).unwrap();
	std::fs::write(&log, &bytes[..bytes.len() / 2]).unwrap();
	check(&crash);
}

#[test]
fn deleted_middle_log_file() {
	let tmp = tempfile::tempdir().unwrap();
	let crash = build(tmp.path());
	std::fs::remove_file(crash.join("log1")).unwrap();
	check(&crash);
}
