// F15: a value that lives only in an older (queued) index table is overwritten with a value of another size tier while the
// chunk of the CURRENT index it must move to is full: write_plan_existing calls tables.index.write_insert_plan(.., None, ..),
// gets NeedReindex back and does not retry -> the new value has no index entry.
#![cfg(feature = "instrumentation")]
use parity_db::{Db, Options};
use tempfile::tempdir;

fn key(b0: u8, b1: u8, b2: u8, tag: u8) -> Vec<u8> {
	let mut k = [tag; 32];
	k[0] = b0; k[1] = b1; k[2] = b2;
	k.to_vec()
}

#[test]
fn overwrite_of_key_in_old_index_when_new_chunk_full() {
	let tmp = tempdir().unwrap();
	let mut options = Options::with_columns(tmp.path(), 1);
	options.columns[0].uniform = true;
	options.always_flush = true;
	options.with_background_thread = false;
	options.salt = Some(Default::default());
	let db = Db::open_or_create(&options).unwrap();
	let drain = |db: &Db| { db.process_commits().unwrap(); db.flush_logs().unwrap(); db.enact_logs().unwrap(); db.clean_logs().unwrap(); };

	// 65 keys with the same 17-bit prefix (00 00 0xxxxxxx): 64 fill the chunk of the 16-bit index, the 65th starts the 17-bit index
	let group_a: Vec<Vec<u8>> = (0..65u8).map(|i| key(0x00, 0x00, i, 0xa0)).collect();
	db.commit(group_a.iter().map(|k| (0u8, k.clone(), Some(vec![k[2]; 10])))).unwrap();
	drain(&db);
	assert!(tmp.path().join("index_00_16").exists() && tmp.path().join("index_00_17").exists());
	// 63 more new keys with the same 17-bit prefix: the 17-bit chunk is now exactly full (64 entries), no further growth yet
	let group_b: Vec<Vec<u8>> = (65..128u8).map(|i| key(0x00, 0x00, i & 0x7f, 0xb0)).collect();
	db.commit(group_b.iter().map(|k| (0u8, k.clone(), Some(vec![k[2]; 10])))).unwrap();
	drain(&db);
	assert!(!tmp.path().join("index_00_18").exists(), "setup: the 17-bit chunk must be full but not overflown");
	for k in group_a.iter().chain(group_b.iter()) { assert_eq!(db.get(0, k).unwrap(), Some(vec![k[2]; 10])); }

	// K lives only in the 16-bit index (no reindex batch has run). Overwrite it with a value of another size tier.
	let k = group_a[3].clone();
	db.commit(vec![(0u8, k.clone(), Some(vec![0xee; 300]))]).unwrap();
	assert_eq!(db.get(0, &k).unwrap(), Some(vec![0xee; 300]), "queued");
	db.process_commits().unwrap();
	assert_eq!(db.get(0, &k).unwrap(), Some(vec![0xee; 300]), "logged");
	db.flush_logs().unwrap(); db.enact_logs().unwrap(); db.clean_logs().unwrap();
	assert_eq!(db.get(0, &k).unwrap(), Some(vec![0xee; 300]), "enacted");
	// let index migration finish
	for _ in 0..50 { db.process_reindex().unwrap(); drain(&db); }
	assert_eq!(db.get(0, &k).unwrap(), Some(vec![0xee; 300]), "after reindex");
	for kk in group_a.iter().chain(group_b.iter()) { if *kk != k { assert_eq!(db.get(0, kk).unwrap(), Some(vec![kk[2]; 10]), "other keys"); } }
}
