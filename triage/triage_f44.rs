// Property C05, finding 1: a removed key is served with the value of another key while an
// index is being grown.
//
// Run with:
//   cargo test --offline --features instrumentation --test hunt_H2C05_1 -- --nocapture
//
// History (single client, pipeline stages driven by hand, everything through the public API):
//   1. 64 keys fill chunk 0 of the 16 bit index, a 65th one starts index growth (16 -> 17 bits).
//   2. The log worker creates the reindex record (copies the 64 entries into the 17 bit index
//      and schedules the drop of the 16 bit index). It is logged but NOT enacted yet, i.e. the
//      commit worker is one step behind the log worker - the normal state of the pipeline.
//   3. T1 removes key K.      T1 is logged.
//   4. T2 inserts key K2.     T2 is logged.
//      K2 is another key (other index chunk) that has the same bytes 6..32 as K, which is all the
//      value table keeps of a key. The rest of the key is only known to the index entry.
//   5. get(K) must return None: T1 is the latest transaction for K and it completed long ago.
//      It returns the value of K2.
#![cfg(feature = "instrumentation")]

use parity_db::{ColumnOptions, Db, Options};

const COL: u8 = 0;

fn key(prefix: [u8; 6], tail: u8) -> Vec<u8> {
	let mut k = vec![tail; 32];
	k[0..6].copy_from_slice(&prefix);
	k
}

fn log_and_enact(db: &Db) {
	db.process_commits().unwrap();
	db.flush_logs().unwrap();
	db.enact_logs().unwrap();
}

#[test]
fn removed_key_is_served_with_the_value_of_another_key_during_index_growth() {
	let dir = tempfile::tempdir().unwrap();
	let mut options = Options::with_columns(dir.path(), 1);
	options.columns[0] = ColumnOptions { uniform: true, ..Default::default() };
	// Zero salt: the first 32 bytes of the key are used as they are (instrumentation only, a
	// version <= 7 database does the same up to a constant XOR).
	options.salt = Some([0; 32]);
	options.with_background_thread = false;
	options.stats = false;
	// Only to make the test faster (no fsync of the index files), no influence on the outcome.
	options.sync_wal = false;
	options.sync_data = false;
	let db = Db::open_or_create(&options).unwrap();

	// The key under test and its twin: same bytes 6..32, different first 6 bytes.
	let k = key([0, 0, 0x00, 0, 0, 1], 0xaa);
	let k2 = key([0x12, 0x34, 0x56, 0, 0, 1], 0xaa);
	let v = vec![0x11u8; 20]; // size tier of its own
	let v2 = vec![0x22u8; 20];

	// 1. Fill chunk 0 of the 16 bit index (keys starting with 0x0000): K and 63 others. Half of
	// them go to chunk 0 and half to chunk 1 of the 17 bit index.
	let mut tx = vec![(COL, k.clone(), Some(v.clone()))];
	for i in 1..64u8 {
		let top = if i % 2 == 0 { 0x00 } else { 0x80 };
		tx.push((COL, key([0, 0, top, 0, 1, i], i), Some(vec![i; 60])));
	}
	db.commit(tx).unwrap();
	log_and_enact(&db);
	// One more key for the full chunk: the index grows.
	db.commit(vec![(COL, key([0, 0, 0x80, 0, 2, 0], 0x77), Some(vec![0x77; 60]))]).unwrap();
	log_and_enact(&db);
	assert_eq!(db.get(COL, &k).unwrap(), Some(v.clone()));

	// 2. Reindex record: logged, not enacted.
	db.process_reindex().unwrap();
	assert_eq!(db.get(COL, &k).unwrap(), Some(v.clone()));

	// 3. T1 removes K.
	db.commit(vec![(COL, k.clone(), None)]).unwrap();
	db.process_commits().unwrap();
	assert_eq!(db.get(COL, &k).unwrap(), None, "K was removed");

	// 4. T2 inserts K2 (takes the value slot that K has just freed).
	db.commit(vec![(COL, k2.clone(), Some(v2.clone()))]).unwrap();
	assert_eq!(db.get(COL, &k).unwrap(), None, "K was removed (T2 queued)");
	db.process_commits().unwrap();
	assert_eq!(db.get(COL, &k2).unwrap(), Some(v2.clone()));

	// 5. No transaction has written K since T1 removed it.
	let got = db.get(COL, &k).unwrap();
	println!("get(K) after T1 (remove K) and T2 (insert K2): {:?}", got);

	// Let the pipeline drain: the answer changes again without any commit.
	db.flush_logs().unwrap();
	db.enact_logs().unwrap();
	let settled = db.get(COL, &k).unwrap();
	println!("get(K) after the pipeline has drained:          {:?}", settled);

	assert_eq!(
		got, None,
		"K was removed by the last transaction that wrote it, but get(K) returns the value of K2"
	);
	assert_eq!(settled, None);
}

// Same root cause, lasting effect: with two index generations queued (the 17 bit index fills up
// before the 16 bit one is dropped) the copy of the entry that stays behind in the middle
// generation is carried over into the current index. The wrong answer is then permanent and
// survives a restart.
#[test]
fn removed_key_is_served_with_the_value_of_another_key_for_good() {
	let dir = tempfile::tempdir().unwrap();
	let mut options = Options::with_columns(dir.path(), 1);
	options.columns[0] = ColumnOptions { uniform: true, ..Default::default() };
	options.salt = Some([0; 32]);
	options.with_background_thread = false;
	options.stats = false;
	// Only to make the test faster (no fsync of the index files), no influence on the outcome.
	options.sync_wal = false;
	options.sync_data = false;
	let db = Db::open_or_create(&options).unwrap();

	let k = key([0, 0, 0x00, 0, 0, 1], 0xaa);
	let k2 = key([0x12, 0x34, 0x56, 0, 0, 1], 0xaa);
	let v = vec![0x11u8; 20];
	let v2 = vec![0x22u8; 20];

	// 64 keys in chunk 0 of the 16 bit index, 32 of them (with K) belong to chunk 0 of the 17
	// bit index, 16 of them (with K) to chunk 0 of the 18 bit index.
	let mut tx = vec![(COL, k.clone(), Some(v.clone()))];
	for i in 1..64u8 {
		let top = [0x00, 0x40, 0x80, 0xc0][i as usize % 4];
		tx.push((COL, key([0, 0, top, 0, 1, i], i), Some(vec![i; 60])));
	}
	db.commit(tx).unwrap();
	log_and_enact(&db);
	db.commit(vec![(COL, key([0, 0, 0x80, 0, 2, 0], 0x77), Some(vec![0x77; 60]))]).unwrap();
	log_and_enact(&db); // 16 -> 17 bits started
	db.process_reindex().unwrap(); // copies logged, 16 bit index not dropped yet

	// Chunk 0 of the 17 bit index fills up: 17 -> 18 bits starts while the 16 bit index is
	// still queued.
	let tx: Vec<_> = (0..40u8)
		.map(|i| (COL, key([0, 0, [0x00, 0x40][i as usize % 2], 1, 3, i], i), Some(vec![i; 60])))
		.collect();
	db.commit(tx).unwrap();
	db.process_commits().unwrap();

	// T1 removes K, T2 inserts K2.
	db.commit(vec![(COL, k.clone(), None)]).unwrap();
	db.process_commits().unwrap();
	db.commit(vec![(COL, k2.clone(), Some(v2.clone()))]).unwrap();
	db.process_commits().unwrap();

	// Drain everything, including both reindex passes.
	for _ in 0..8 {
		db.flush_logs().unwrap();
		db.enact_logs().unwrap();
		db.clean_logs().unwrap();
		db.process_reindex().unwrap();
	}
	db.flush_logs().unwrap();
	db.enact_logs().unwrap();
	db.clean_logs().unwrap();
	let settled = db.get(COL, &k).unwrap();
	println!("get(K) with an idle pipeline: {:?}", settled);
	drop(db);
	let db = Db::open(&options).unwrap();
	let reopened = db.get(COL, &k).unwrap();
	println!("get(K) after a restart:       {:?}", reopened);
	assert_eq!(db.get(COL, &k2).unwrap(), Some(v2.clone()));
	assert_eq!(settled, None, "K was removed, get(K) returns the value of K2");
	assert_eq!(reopened, None, "K was removed, get(K) returns the value of K2 after a restart");
}
