#![cfg(feature = "instrumentation")]
// C14: a multitree node that is referenced by a live tree must stay allocated.
//
// Deterministic, single threaded (stepping API), no crash:
//
//   trees K0 = root -> [leaf-0] and K1 = root -> [leaf-A, leaf-B] are committed and drained.
//   A reader holds the read lock of K0 (it is looking at that tree).
//   C1: the writer - holding the read lock of K1, as the protocol demands - commits in ONE
//       transaction the new tree K2 = root -> [Existing(leaf-A), leaf-C] and the pruning of the
//       old tree K0:  [InsertTree(K2), DereferenceTree(K0)].  It releases K1.
//   C2: K1 is pruned: [DereferenceTree(K1)].  (K2 was committed before, so leaf-A has two owners.)
//
//   The log worker takes C1, finds the reader of K0 locked and re-queues the WHOLE commit behind C2
//   - including InsertTree(K2) and its reference increment for leaf-A. C2 is processed first and,
//   as leaf-A still has one owner on record, frees it. Then C1 runs and "increments" the counter of
//   a free slot: K2 points at a free slot, the ref count table has an entry for it, and the next
//   tree that is inserted is given the same slot.
//
// Run: cargo test --offline --features instrumentation --test hunt_H2C14_2

use parity_db::{ColumnOptions, Db, NewNode, NodeRef, Operation, Options};

fn drain(db: &Db) {
	for _ in 0..8 {
		db.process_commits().unwrap();
		db.flush_logs().unwrap();
		db.enact_logs().unwrap();
		db.clean_logs().unwrap();
	}
}

fn leaf(data: &[u8]) -> NodeRef {
	NodeRef::New(NewNode { data: data.to_vec(), children: vec![] })
}

fn read_children(db: &Db, key: &[u8]) -> Vec<Option<Vec<u8>>> {
	let reader = db.get_tree(0, key).unwrap().expect("tree exists");
	let guard = reader.read();
	let (_data, children) = guard.get_root().unwrap().expect("root exists");
	children.iter().map(|c| guard.get_node(*c).unwrap().map(|(d, _)| d)).collect()
}

fn scenario(reader_of_k0_is_active: bool) -> (Vec<Option<Vec<u8>>>, u64, Vec<Option<Vec<u8>>>) {
	let tmp = tempfile::tempdir().unwrap();
	let mut options = Options::with_columns(tmp.path(), 1);
	options.columns[0] = ColumnOptions {
		multitree: true,
		allow_direct_node_access: true,
		..Default::default()
	};
	options.with_background_thread = false;
	let db = Db::open_or_create(&options).unwrap();
	let k0 = [0x10u8; 32].to_vec();
	let k1 = [0x11u8; 32].to_vec();
	let k2 = [0x12u8; 32].to_vec();
	let k3 = [0x13u8; 32].to_vec();

	db.commit_changes([
		(
			0u8,
			Operation::InsertTree(
				k0.clone(),
				NewNode { data: b"root-0".to_vec(), children: vec![leaf(b"leaf-0")] },
			),
		),
		(
			0u8,
			Operation::InsertTree(
				k1.clone(),
				NewNode {
					data: b"root-1".to_vec(),
					children: vec![leaf(b"leaf-A"), leaf(b"leaf-B")],
				},
			),
		),
	])
	.unwrap();
	drain(&db);
	assert_eq!(db.get_num_column_value_entries(0).unwrap(), 5);

	// Somebody reads K0.
	let reader0 = db.get_tree(0, &k0).unwrap().unwrap();
	let guard0 = if reader_of_k0_is_active { Some(reader0.read()) } else { None };

	// C1: new tree sharing leaf-A with K1 + pruning of K0, in one transaction.
	{
		let reader1 = db.get_tree(0, &k1).unwrap().unwrap();
		let guard1 = reader1.read();
		let (_data, children) = guard1.get_root().unwrap().unwrap();
		db.commit_changes([
			(
				0u8,
				Operation::InsertTree(
					k2.clone(),
					NewNode {
						data: b"root-2".to_vec(),
						children: vec![NodeRef::Existing(children[0]), leaf(b"leaf-C")],
					},
				),
			),
			(0u8, Operation::DereferenceTree(k0.clone())),
		])
		.unwrap();
		drop(guard1);
	}
	// C2: K1 is pruned.
	db.commit_changes([(0u8, Operation::DereferenceTree(k1.clone()))]).unwrap();

	// The log worker.
	db.process_commits().unwrap();
	db.process_commits().unwrap();
	// The reader of K0 is done.
	drop(guard0);
	drain(&db);

	assert!(db.get_tree(0, &k0).unwrap().is_none());
	assert!(db.get_tree(0, &k1).unwrap().is_none());
	let nodes = read_children(&db, &k2);
	let used = db.get_num_column_value_entries(0).unwrap();

	// One more tree of three nodes: it must not be given a slot that K2 uses.
	db.commit_changes([(
		0u8,
		Operation::InsertTree(
			k3.clone(),
			NewNode {
				data: b"root-3".to_vec(),
				children: vec![leaf(b"leaf-D"), leaf(b"leaf-E"), leaf(b"leaf-F")],
			},
		),
	)])
	.unwrap();
	drain(&db);
	let nodes_after = read_children(&db, &k2);
	(nodes, used, nodes_after)
}

fn expected() -> (Vec<Option<Vec<u8>>>, u64, Vec<Option<Vec<u8>>>) {
	let k2_children = vec![Some(b"leaf-A".to_vec()), Some(b"leaf-C".to_vec())];
	// live after the drain: root-2, leaf-A, leaf-C
	(k2_children.clone(), 3, k2_children)
}

#[test]
fn shared_node_survives_when_the_sharing_commit_is_deferred() {
	assert_eq!(
		scenario(true),
		expected(),
		"children of K2 / used slots / children of K2 after one more tree was inserted"
	);
}

// The same history without the reader of K0: nothing is deferred, everything is fine.
#[test]
fn control_nothing_deferred() {
	assert_eq!(scenario(false), expected());
}
