//! C11 finding 1: deferring a commit that contains a tree dereference moves ALL of its writes
//! (other keys, other columns, overlay entries) behind commits that were made later, so the
//! final state is not the one of applying the transactions in commit order.
//!
//! Each test runs the same single-threaded history twice with the stepping API: once with a
//! client holding the read lock of the tree while the log worker looks at the dereference
//! (the commit is deferred), once without (control, nothing is deferred). The property says
//! that the deferral must not change the outcome.
//!
//! Run: cargo test --offline --features instrumentation --test hunt_HC11_1
#![cfg(feature = "instrumentation")]

use parity_db::{ColumnOptions, Db, NewNode, NodeRef, Operation, Options};

const TREES: u8 = 0;
const INFO: u8 = 1;

fn options(path: &std::path::Path) -> Options {
	let mut options = Options::with_columns(path, 2);
	options.salt = Some([0u8; 32]);
	options.with_background_thread = false;
	options.always_flush = true;
	options.columns[TREES as usize] =
		ColumnOptions { multitree: true, allow_direct_node_access: true, ..Default::default() };
	options
}

fn tree(tag: u8) -> NewNode {
	NewNode {
		data: vec![tag; 16],
		children: vec![
			NodeRef::New(NewNode { data: vec![tag, 1], children: vec![] }),
			NodeRef::New(NewNode { data: vec![tag, 2], children: vec![] }),
		],
	}
}

fn run_pipeline(db: &Db) {
	// Enough rounds for every queued (and possibly re-queued) commit.
	for _ in 0..8 {
		db.process_commits().unwrap();
	}
	db.flush_logs().unwrap();
	db.enact_logs().unwrap();
	db.clean_logs().unwrap();
}

type Seen = Option<Vec<u8>>;

/// The pruner's transaction T1 = { dereference tree A, INFO[k] = "T1" } is committed first, the
/// writer's transaction T2 = { INFO[k] = "T2" } second (this is what admin/src/multitree_bench
/// does with its KEY_NUM_REMOVED / KEY_LAST_COMMIT bookkeeping).
/// Returns INFO[k] as seen (after the worker looked at T1, after everything drained, after reopen).
fn deref_with_info_then_info(hold_lock: bool) -> (Seen, Seen, Seen) {
	let dir = tempfile::tempdir().unwrap();
	let db = Db::open_or_create(&options(dir.path())).unwrap();
	let key_a = vec![0xA1u8; 32];
	let k = b"last_writer".to_vec();

	db.commit_changes(vec![(TREES, Operation::InsertTree(key_a.clone(), tree(1)))]).unwrap();
	run_pipeline(&db);

	let reader = db.get_tree(TREES, &key_a).unwrap().expect("tree A exists");
	let guard = hold_lock.then(|| reader.read());
	let children = match &guard {
		Some(guard) => guard.get_root().unwrap().expect("root readable under lock").1,
		None => Vec::new(),
	};

	// T1 returns first, T2 returns second.
	db.commit_changes(vec![
		(TREES, Operation::DereferenceTree(key_a.clone())),
		(INFO, Operation::Set(k.clone(), b"T1".to_vec())),
	])
	.unwrap();
	db.commit_changes(vec![(INFO, Operation::Set(k.clone(), b"T2".to_vec()))]).unwrap();
	assert_eq!(db.get(INFO, &k).unwrap(), Some(b"T2".to_vec()));

	// The log worker looks at T1.
	db.process_commits().unwrap();

	if let Some(guard) = &guard {
		// The locked tree is intact (this half of the property holds here).
		assert!(guard.get_root().unwrap().is_some());
		for c in &children {
			assert!(guard.get_node(*c).unwrap().is_some());
		}
	}
	let seen_after_first_step = db.get(INFO, &k).unwrap();

	drop(guard);
	run_pipeline(&db);

	// The (possibly postponed) removal completed.
	assert!(db.get_root(TREES, &key_a).unwrap().is_none(), "removal must complete");
	let seen_at_the_end = db.get(INFO, &k).unwrap();

	drop(reader);
	drop(db);
	let db = Db::open(&options(dir.path())).unwrap();
	let seen_after_reopen = db.get(INFO, &k).unwrap();
	(seen_after_first_step, seen_at_the_end, seen_after_reopen)
}

#[test]
fn deferral_must_not_reorder_writes_to_other_columns() {
	let t2 = Some(b"T2".to_vec());
	let control = deref_with_info_then_info(false);
	assert_eq!(control, (t2.clone(), t2.clone(), t2), "control run: commit order decides");
	let deferred = deref_with_info_then_info(true);
	assert_eq!(
		deferred, control,
		"INFO[k] (after the worker looked at T1, at the end, after reopen): left with a locked reader, right without"
	);
}

/// Same history inside the multitree column: T1 = { dereference A }, T2 = { insert A again with
/// new content }. Returns (data of root A, number of value entries of the column) at the end.
fn deref_then_reinsert(hold_lock: bool) -> (Seen, u64) {
	let dir = tempfile::tempdir().unwrap();
	let db = Db::open_or_create(&options(dir.path())).unwrap();
	let key_a = vec![0xA1u8; 32];

	db.commit_changes(vec![(TREES, Operation::InsertTree(key_a.clone(), tree(1)))]).unwrap();
	run_pipeline(&db);
	assert_eq!(db.get_num_column_value_entries(TREES).unwrap(), 3);

	let reader = db.get_tree(TREES, &key_a).unwrap().expect("tree A exists");
	let guard = hold_lock.then(|| reader.read());
	db.commit_changes(vec![(TREES, Operation::DereferenceTree(key_a.clone()))]).unwrap();
	db.commit_changes(vec![(TREES, Operation::InsertTree(key_a.clone(), tree(2)))]).unwrap();
	db.process_commits().unwrap();
	drop(guard);
	run_pipeline(&db);

	let root = db.get_root(TREES, &key_a).unwrap();
	(root.map(|r| r.0), db.get_num_column_value_entries(TREES).unwrap())
}

#[test]
fn deferral_must_not_reorder_a_reinsertion_of_the_same_tree() {
	let control = deref_then_reinsert(false);
	assert_eq!(control, (Some(vec![2u8; 16]), 3), "control run: A removed, then A' inserted");
	let deferred = deref_then_reinsert(true);
	assert_eq!(
		deferred, control,
		"(root data of A, value entries in the column): left with a locked reader, right without"
	);
}
