// Same defect as tests/hunt_H2C16_1.rs (a torn record at the end of the log file being appended to
// is handed to the reader, which applies it without checking it), this time with the four
// background threads and the default `sync_wal`/`sync_data` options (`always_flush` only makes the
// flush worker take every log file instead of waiting for 64 MiB).
//
// Fault: the disk is full. Starting with the write(2) of the 16 KB value of T3, every write(2) to a
// database file fails with ENOSPC, for ever. fdatasync/ftruncate keep working.
//
// Schedule (imposed from inside the test: a slow write(2), a slow log sink, and one preemption of
// the flush worker - a signal handler that keeps the thread busy for a while, the same thing the
// gdb recipe does from outside):
//  1. the flush worker is preempted while it is idle; T2 is logged (the wake-up for the flush
//     worker is pending), T3 is appended to the same log file;
//  2. the failing write(2) of T3 is slow (the log worker holds the `appending` lock meanwhile);
//     the flush worker runs again, sees a non-empty log file and waits for that lock;
//  3. the write fails; the log worker is slow to report it (its `log::warn!` in `store_err`
//     blocks for a moment), the flush worker takes the file - [T2][torn T3] -, fsyncs it and hands
//     it to the commit worker, which enacts T2 and then T3's index entry, and fails with
//     UnexpectedEof when the value does not come.
// After dropping the database and reopening it without the fault the key of T1 (enacted and its log
// cleaned long before) is gone.
//
// Run: cargo test --offline --features instrumentation --test hunt_H2C16_1_bg

use parity_db::{Db, Options};
use std::{
	panic::{catch_unwind, AssertUnwindSafe},
	sync::atomic::{AtomicBool, AtomicI64, Ordering::SeqCst},
	time::{Duration, Instant},
};

const MARKER: &[u8] = b"hunt_H2C16_db";

static FAILING: AtomicBool = AtomicBool::new(false); // every write(2) to a db file fails

// Thread id of the flush worker (the only caller of fdatasync).
static FLUSH_WORKER_TID: AtomicI64 = AtomicI64::new(0);
static FREEZE_ENTERED: AtomicBool = AtomicBool::new(false);
static FREEZE_RELEASE: AtomicBool = AtomicBool::new(false);

static WRITE_GATE_ARMED: AtomicBool = AtomicBool::new(false);
static WRITE_GATE_ENTERED: AtomicBool = AtomicBool::new(false);
static WRITE_GATE_RELEASE: AtomicBool = AtomicBool::new(false);

static LOG_GATE_ARMED: AtomicBool = AtomicBool::new(false);
static LOG_GATE_ENTERED: AtomicBool = AtomicBool::new(false);
static LOG_GATE_RELEASE: AtomicBool = AtomicBool::new(false);

fn is_db_fd(fd: libc::c_int) -> bool {
	if fd <= 2 {
		return false
	}
	let mut link = [0u8; 64];
	let name = format!("/proc/self/fd/{fd}\0");
	let mut buf = [0u8; 512];
	link[..name.len()].copy_from_slice(name.as_bytes());
	let n = unsafe {
		libc::readlink(link.as_ptr() as *const libc::c_char, buf.as_mut_ptr() as *mut _, buf.len())
	};
	if n <= 0 {
		return false
	}
	buf[..n as usize].windows(MARKER.len()).any(|w| w == MARKER)
}

fn spin_until(flag: &AtomicBool) {
	while !flag.load(SeqCst) {
		std::thread::sleep(Duration::from_millis(1));
	}
}

#[no_mangle]
pub unsafe extern "C" fn write(
	fd: libc::c_int,
	buf: *const libc::c_void,
	count: libc::size_t,
) -> libc::ssize_t {
	if (WRITE_GATE_ARMED.load(SeqCst) || FAILING.load(SeqCst)) && is_db_fd(fd) {
		// `BufWriter` hands anything of 8 KiB or more straight to the file.
		if count >= 8192 && WRITE_GATE_ARMED.swap(false, SeqCst) {
			WRITE_GATE_ENTERED.store(true, SeqCst);
			spin_until(&WRITE_GATE_RELEASE);
			FAILING.store(true, SeqCst);
		}
		if FAILING.load(SeqCst) {
			*libc::__errno_location() = libc::ENOSPC;
			return -1
		}
	}
	libc::syscall(libc::SYS_write, fd, buf, count) as libc::ssize_t
}

#[no_mangle]
pub unsafe extern "C" fn fdatasync(fd: libc::c_int) -> libc::c_int {
	if is_db_fd(fd) {
		FLUSH_WORKER_TID.store(libc::syscall(libc::SYS_gettid) as i64, SeqCst);
	}
	libc::syscall(libc::SYS_fdatasync, fd) as libc::c_int
}

// "Preemption": the thread that receives SIGUSR1 does nothing until it is released.
extern "C" fn freeze(_: libc::c_int) {
	FREEZE_ENTERED.store(true, SeqCst);
	while !FREEZE_RELEASE.load(SeqCst) {
		let ts = libc::timespec { tv_sec: 0, tv_nsec: 1_000_000 };
		unsafe { libc::nanosleep(&ts, std::ptr::null_mut()) };
	}
}

struct SlowLogger;

impl log::Log for SlowLogger {
	fn enabled(&self, _: &log::Metadata) -> bool {
		true
	}
	fn log(&self, record: &log::Record) {
		let text = format!("{}", record.args());
		if record.level() <= log::Level::Warn || std::env::var_os("H2C16_LOG").is_some() {
			eprintln!("[{:?}] {} {}", std::thread::current().id(), record.level(), text);
		}
		if text.starts_with("Background worker error") && LOG_GATE_ARMED.swap(false, SeqCst) {
			LOG_GATE_ENTERED.store(true, SeqCst);
			spin_until(&LOG_GATE_RELEASE);
		}
	}
	fn flush(&self) {}
}

fn wait_for(what: &str, timeout: Duration, mut f: impl FnMut() -> bool) -> bool {
	let start = Instant::now();
	while start.elapsed() < timeout {
		if f() {
			return true
		}
		std::thread::sleep(Duration::from_millis(2));
	}
	eprintln!("(timed out waiting for: {what})");
	false
}

fn log_sizes(dir: &std::path::Path) -> Vec<(String, u64)> {
	let mut v: Vec<_> = std::fs::read_dir(dir)
		.unwrap()
		.filter_map(|e| e.ok())
		.filter_map(|e| {
			let name = e.file_name().to_string_lossy().to_string();
			name.starts_with("log").then(|| (name, e.metadata().map(|m| m.len()).unwrap_or(0)))
		})
		.collect();
	v.sort();
	v
}

#[test]
fn torn_append_is_enacted_by_the_commit_worker() {
	log::set_logger(&SlowLogger).unwrap();
	log::set_max_level(if std::env::var_os("H2C16_LOG").is_some() {
		log::LevelFilter::Debug
	} else {
		log::LevelFilter::Warn
	});

	let dir = tempfile::Builder::new()
		.prefix("hunt_H2C16_db")
		.tempdir_in(env!("CARGO_TARGET_TMPDIR"))
		.unwrap();
	let mut options = Options::with_columns(dir.path(), 1);
	options.always_flush = true;

	let k_old = b"old key".to_vec();
	let v_old = vec![0x11u8; 100];
	let k_mid = b"middle key".to_vec();
	let v_mid = vec![0x22u8; 100];
	let v_big = vec![0x33u8; 16000];

	let db = Db::open_or_create(&options).unwrap();

	// T1: committed, logged, fsynced, enacted, tables flushed, log truncated.
	db.commit(vec![(0u8, k_old.clone(), Some(v_old.clone()))]).unwrap();
	assert!(wait_for("T1 enacted and its log cleaned", Duration::from_secs(10), || {
		let logs = log_sizes(dir.path());
		dir.path().join("index_00_16").exists() && !logs.is_empty() && logs.iter().all(|l| l.1 == 0)
	}));

	std::thread::sleep(Duration::from_millis(200));

	// The flush worker, idle now, is preempted.
	let tid = FLUSH_WORKER_TID.load(SeqCst);
	assert!(tid != 0);
	unsafe {
		let mut sa: libc::sigaction = std::mem::zeroed();
		sa.sa_sigaction = freeze as extern "C" fn(libc::c_int) as usize;
		libc::sigemptyset(&mut sa.sa_mask);
		assert_eq!(libc::sigaction(libc::SIGUSR1, &sa, std::ptr::null_mut()), 0);
		assert_eq!(libc::syscall(libc::SYS_tgkill, libc::getpid(), tid, libc::SIGUSR1), 0);
	}
	assert!(wait_for("flush worker preempted", Duration::from_secs(10), || {
		FREEZE_ENTERED.load(SeqCst)
	}));

	// T2 is logged.
	db.commit(vec![(0u8, k_mid.clone(), Some(v_mid.clone()))]).unwrap();
	assert!(wait_for("T2 logged", Duration::from_secs(10), || {
		log_sizes(dir.path()).iter().any(|l| l.1 > 0)
	}));

	// T3 is appended to the same file; the write of its value is slow and will fail.
	WRITE_GATE_ARMED.store(true, SeqCst);
	db.commit(vec![(0u8, k_old.clone(), Some(v_big.clone()))]).unwrap();
	assert!(wait_for("log worker in write", Duration::from_secs(10), || {
		WRITE_GATE_ENTERED.load(SeqCst)
	}));

	// The flush worker runs again and goes for the log file.
	FREEZE_RELEASE.store(true, SeqCst);
	std::thread::sleep(Duration::from_millis(500));

	// The disk is full from now on. The log worker is slow to report it.
	LOG_GATE_ARMED.store(true, SeqCst);
	WRITE_GATE_RELEASE.store(true, SeqCst);
	assert!(wait_for("log worker reports its error", Duration::from_secs(10), || {
		LOG_GATE_ENTERED.load(SeqCst)
	}));
	let refused = |db: &Db| db.commit(Vec::<(u8, Vec<u8>, Option<Vec<u8>>)>::new()).is_err();
	wait_for("(optional) another worker fails first", Duration::from_secs(2), || refused(&db));
	LOG_GATE_RELEASE.store(true, SeqCst);
	assert!(
		wait_for("commits are refused", Duration::from_secs(10), || refused(&db)),
		"the failure must be reported: later commits are refused"
	);
	eprintln!("commit now returns: {}", db.commit(vec![(0u8, b"x".to_vec(), None)]).unwrap_err());

	// Reads keep working.
	assert_eq!(db.get(0, &k_mid).unwrap(), Some(v_mid.clone()));
	assert!(db.get(0, &k_old).unwrap().is_some());

	// Shutdown with the fault still present, restart without it.
	drop(db);
	FAILING.store(false, SeqCst);
	let db = Db::open(&options).expect("reopen");
	let got_mid = db.get(0, &k_mid).unwrap();
	let got_old = catch_unwind(AssertUnwindSafe(|| db.get(0, &k_old)));
	eprintln!(
		"after reopen: middle key = {:?}, old key = {:?}",
		got_mid.as_ref().map(|v| v.len()),
		got_old.as_ref().map(|r| r.as_ref().map(|v| v.as_ref().map(|v| v.len())))
	);
	let got_old = got_old.expect("get panicked after reopen").expect("get failed after reopen");
	// Allowed: [T1], [T1, T2] or [T1, T2, T3].
	assert!(
		got_old == Some(v_old.clone()) || (got_old == Some(v_big.clone()) && got_mid.is_some()),
		"T1 was enacted and its log cleaned before the fault, but after reopening its key reads {:?} \
		 (expected the 100 byte value of T1, or the 16000 byte value of T3)",
		got_old.map(|v| v.len()),
	);
	assert!(got_mid.is_none() || got_mid == Some(v_mid));
}
