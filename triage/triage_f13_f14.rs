use parity_db::{ColumnOptions, Db, NewNode, NodeRef, Operation, Options};
use std::path::Path;

fn opts(p: &Path, cols: Vec<ColumnOptions>) -> Options {
    let mut o = Options::with_columns(p, cols.len() as u8);
    o.columns = cols;
    o.with_background_thread = false;
    o.always_flush = true;
    o
}
fn copy_dir(from: &Path, to: &Path) {
    std::fs::create_dir_all(to).unwrap();
    for e in std::fs::read_dir(from).unwrap() {
        let e = e.unwrap();
        if e.file_name() == "lock" { continue }
        std::fs::copy(e.path(), to.join(e.file_name())).unwrap();
    }
}
fn recrc(b: &mut Vec<u8>) {
    let n = b.len();
    let mut h = crc32fast::Hasher::new();
    h.update(&b[..n - 4]);
    let c = h.finalize();
    b[n - 4..].copy_from_slice(&c.to_le_bytes());
}
fn mt() -> ColumnOptions { let mut c = ColumnOptions::default(); c.multitree = true; c.allow_direct_node_access = true; c }

#[test]
fn f13_refcount_mask_bit_40() {
    let d = tempfile::tempdir().unwrap();
    let o = opts(d.path(), vec![mt()]);
    let db = Db::open_or_create(&o).unwrap();
    db.commit_changes(vec![(0, Operation::InsertTree(b"t".to_vec(), NewNode { data: b"root".to_vec(), children: vec![] }))]).unwrap();
    db.process_commits().unwrap();
    db.flush_logs().unwrap();
    let d2 = tempfile::tempdir().unwrap();
    copy_dir(d.path(), d2.path());
    std::mem::forget(db);
    let mut b = std::fs::read(d2.path().join("log0")).unwrap();
    let n = b.len();
    let tail = b.split_off(n - 5);
    // INSERT_REF_COUNT(6), table id (col 0, bits 16), chunk index 0, mask with only bit 40 set, one 16-byte entry
    b.push(6); b.extend_from_slice(&(16u16).to_le_bytes()); b.extend_from_slice(&0u64.to_le_bytes());
    b.extend_from_slice(&(1u64 << 40).to_le_bytes()); b.extend_from_slice(&[0u8; 16]);
    b.extend_from_slice(&tail);
    recrc(&mut b);
    std::fs::write(d2.path().join("log0"), &b).unwrap();
    let o2 = opts(d2.path(), vec![mt()]);
    let r = std::panic::catch_unwind(|| Db::open(&o2).map(|_| ()));
    println!("F13 open with checksum-valid InsertRefCount(mask bit 40): panicked = {}", r.is_err());
}

#[test]
fn f14_deferred_commit_loses_btree_writes() {
    let d = tempfile::tempdir().unwrap();
    let mut bt = ColumnOptions::default(); bt.btree_index = true;
    let o = opts(d.path(), vec![mt(), bt]);
    let db = Db::open_or_create(&o).unwrap();
    let drain = |db: &Db| { for _ in 0..4 { db.process_commits().unwrap(); } db.flush_logs().unwrap(); db.enact_logs().unwrap(); db.clean_logs().unwrap(); };
    db.commit_changes(vec![(0, Operation::InsertTree(b"t".to_vec(), NewNode { data: b"root".to_vec(), children: vec![NodeRef::New(NewNode{data: b"kid".to_vec(), children: vec![]})] }))]).unwrap();
    drain(&db);
    let reader = db.get_tree(0, b"t").unwrap().unwrap();
    let guard = reader.read();
    // transaction A: dereference the (locked) tree AND write a btree key; transaction B queued behind it
    db.commit_changes(vec![(0, Operation::DereferenceTree(b"t".to_vec())), (1, Operation::Set(b"ka".to_vec(), b"va".to_vec()))]).unwrap();
    db.commit_changes(vec![(1, Operation::Set(b"kb".to_vec(), b"vb".to_vec()))]).unwrap();
    db.process_commits().unwrap(); // A is deferred (tree locked), re-queued behind B under a new id
    drop(guard);
    drop(reader);
    drain(&db);
    println!("F14 before reopen: get(1,ka) = {:?}, get(1,kb) = {:?}, root = {:?}", db.get(1, b"ka").unwrap(), db.get(1, b"kb").unwrap(), db.get_root(0, b"t").unwrap().is_some());
    drop(db);
    let db = Db::open(&o).unwrap();
    println!("F14 after  reopen: get(1,ka) = {:?}, get(1,kb) = {:?}, root = {:?}", db.get(1, b"ka").unwrap(), db.get(1, b"kb").unwrap(), db.get_root(0, b"t").unwrap().is_some());
}
