// Uniform-key column, key longer than 32 bytes (documented as admissible:
// "keys are at least 32 bytes and the first 32 bytes have uniform distribution").
// Run: cargo test --offline --test hunt_HC01_1
use parity_db::{Db, Options};

fn key(n: u8, len: usize) -> Vec<u8> {
	// Uniformly looking first 32 bytes, arbitrary tail.
	(0..len).map(|i| (i as u8).wrapping_mul(37).wrapping_add(n.wrapping_mul(101)) ^ 0x5a).collect()
}

#[test]
fn uniform_column_accepts_keys_longer_than_32_bytes() {
	let tmp = tempfile::tempdir().unwrap();
	let mut options = Options::with_columns(tmp.path(), 1);
	options.columns[0].uniform = true;
	let db = Db::open_or_create(&options).unwrap();

	// Sanity: a 32 byte key works.
	let k32 = key(1, 32);
	db.commit(vec![(0u8, k32.clone(), Some(b"v32".to_vec()))]).unwrap();
	assert_eq!(db.get(0, &k32).unwrap(), Some(b"v32".to_vec()));

	// A 33 byte key is admitted by the column type ("at least 32 bytes").
	let k33 = key(2, 33);
	let r = std::panic::catch_unwind(std::panic::AssertUnwindSafe(|| {
		db.commit(vec![(0u8, k33.clone(), Some(b"v33".to_vec()))])
	}));
	assert!(r.is_ok(), "commit of a 33 byte key on a uniform column panicked");
	r.unwrap().unwrap();
	let r = std::panic::catch_unwind(std::panic::AssertUnwindSafe(|| db.get(0, &k33)));
	assert!(r.is_ok(), "get of a 33 byte key on a uniform column panicked");
	assert_eq!(r.unwrap().unwrap(), Some(b"v33".to_vec()));
	assert_eq!(db.get_size(0, &k33).unwrap(), Some(3));

	// Long key (300 bytes).
	let k300 = key(3, 300);
	db.commit(vec![(0u8, k300.clone(), Some(b"v300".to_vec()))]).unwrap();
	assert_eq!(db.get(0, &k300).unwrap(), Some(b"v300".to_vec()));
	// Other keys unaffected.
	assert_eq!(db.get(0, &k32).unwrap(), Some(b"v32".to_vec()));
	assert_eq!(db.get(0, &k33).unwrap(), Some(b"v33".to_vec()));
}
