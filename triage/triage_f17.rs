// F17: BTreeIterator::seek_to_last does not drop the parked tree entry (pending_backend); `seek` does.
// C04: "from the start/end positions it yields the first/last key or nothing".
#![cfg(feature = "instrumentation")]
use parity_db::{Db, Options};

#[test]
fn seek_to_last_then_next_yields_nothing() {
	let tmp = tempfile::tempdir().unwrap();
	let mut options = Options::with_columns(tmp.path(), 1);
	options.columns[0].btree_index = true;
	options.with_background_thread = false;
	options.always_flush = true;
	let db = Db::open_or_create(&options).unwrap();
	// k10, k20, k30 in the tree
	db.commit(vec![(0u8, b"k10".to_vec(), Some(b"a".to_vec())), (0, b"k20".to_vec(), Some(b"b".to_vec())), (0, b"k30".to_vec(), Some(b"c".to_vec()))]).unwrap();
	db.process_commits().unwrap(); db.flush_logs().unwrap(); db.enact_logs().unwrap(); db.clean_logs().unwrap();
	// k15 only in the commit overlay
	db.commit(vec![(0u8, b"k15".to_vec(), Some(b"x".to_vec()))]).unwrap();
	let mut it = db.iter(0).unwrap();
	it.seek_to_first().unwrap();
	assert_eq!(it.next().unwrap().map(|(k, _)| k), Some(b"k10".to_vec()));
	// the overlay entry k15 wins over the tree entry k20, which is parked
	assert_eq!(it.next().unwrap().map(|(k, _)| k), Some(b"k15".to_vec()));
	it.seek_to_last().unwrap();
	assert_eq!(it.next().unwrap().map(|(k, _)| k), None, "stepping forward from the end position must yield nothing");
	// and backwards from the end: the last key
	it.seek_to_last().unwrap();
	assert_eq!(it.prev().unwrap().map(|(k, _)| k), Some(b"k30".to_vec()));
}
