// HC04 finding 2: a new iterator is at the start position (`next()` yields the first key), but
// `prev()` on it wraps around to the last key held by the tree, while keys still held by the
// commit overlay are not considered. The answer depends on how far the pipeline has progressed.
//
// Run: cargo test --offline --features instrumentation --test hunt_HC04_2
#![cfg(feature = "instrumentation")]

use parity_db::{Db, Options};

fn options(path: &std::path::Path) -> Options {
	let mut options = Options::with_columns(path, 1);
	options.columns[0].btree_index = true;
	options.with_background_thread = false;
	options.always_flush = true;
	options
}

#[test]
fn prev_on_new_iterator_is_independent_of_pipeline_progress() {
	let tmp = tempfile::tempdir().unwrap();
	let db = Db::open_or_create(&options(tmp.path())).unwrap();
	db.commit(vec![
		(0u8, vec![1u8], Some(b"one".to_vec())),
		(0u8, vec![2u8], Some(b"two".to_vec())),
		(0u8, vec![3u8], Some(b"three".to_vec())),
	])
	.unwrap();

	// Data is in the commit overlay only.
	let in_overlay = db.iter(0).unwrap().prev().unwrap();
	// A new iterator is positioned at the start.
	assert_eq!(db.iter(0).unwrap().next().unwrap(), Some((vec![1u8], b"one".to_vec())));

	// Same data, now in the log overlay.
	db.process_commits().unwrap();
	let in_log = db.iter(0).unwrap().prev().unwrap();
	assert_eq!(db.iter(0).unwrap().next().unwrap(), Some((vec![1u8], b"one".to_vec())));

	// Same data, now in the table files.
	db.flush_logs().unwrap();
	db.enact_logs().unwrap();
	let in_files = db.iter(0).unwrap().prev().unwrap();

	assert_eq!(in_overlay, in_log, "prev() on a new iterator changed when the commit was processed");
	assert_eq!(in_log, in_files);
	// From the start position a backward step yields nothing.
	assert_eq!(in_log, None);
}

#[test]
fn prev_on_new_iterator_ignores_newer_overlay_keys() {
	let tmp = tempfile::tempdir().unwrap();
	let db = Db::open_or_create(&options(tmp.path())).unwrap();
	db.commit(vec![(0u8, vec![1u8], Some(b"one".to_vec()))]).unwrap();
	db.process_commits().unwrap();
	// The largest key of the database is in the commit overlay.
	db.commit(vec![(0u8, vec![9u8], Some(b"nine".to_vec()))]).unwrap();

	let got = db.iter(0).unwrap().prev().unwrap();
	// Either nothing (start position) or, if a new iterator were defined to wrap around, the last
	// key [9]. The key [1] is neither.
	assert!(
		got.is_none() || got == Some((vec![9u8], b"nine".to_vec())),
		"prev() on a new iterator returned {:?}, which is neither nothing nor the last key",
		got
	);
}
