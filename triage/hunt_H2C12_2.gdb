# Imposes the schedule of tests/hunt_H2C12_2.rs: the flush worker is held between
# `flush_worker_wait.wait()` and `flush_logs` (src/db.rs:1670) until the log worker has failed to
# write T1's record.
set pagination off
set confirm off
set breakpoint pending on
set print thread-events off
break h2c12_marker_before
run
# main test thread is at the marker, all workers are idle
break src/db.rs:1670
continue
python
import gdb
# the flush worker was woken up by the record of T0b and stopped before `flush_logs`
gdb.execute("set scheduler-locking on")
log_worker = None
already_failed = False
for t in gdb.selected_inferior().threads():
    t.switch()
    bt = gdb.execute("bt 60", to_string=True)
    if "Db::log_worker" in bt:
        log_worker = t
    if "store_err" in bt:
        # `log_worker` has returned its error already, the thread is in the (slow) log sink
        already_failed = True
if not already_failed:
    assert log_worker is not None
    log_worker.switch()
    gdb.execute("break h2c12_marker_worker_failed")
    gdb.execute("continue")
print("[gdb] log worker has failed, releasing the flush worker")
gdb.execute("set scheduler-locking off")
gdb.execute("delete")
gdb.execute("continue")
end
