// C20: migration copies every key, value and reference count.
//
// A hash column whose index is being grown keeps two index files (`index_00_16` and
// `index_00_17`): the entries move from the old table to the new one in the background and the move
// is simply interrupted when the database is closed (`log_worker` stops reindexing on shutdown) and
// resumed at the next open. `Db::get` looks into the old tables as well (`HashColumn::get` walks
// `reindex.queue`), but the index walk used by `migrate` (`HashColumn::iter_index_internal`) only
// visits `tables.index`, the newest table. Every key that still lives in an old index table when
// the walk passes is silently left out of the destination, and `migrate` returns `Ok`.
//
// The source below is closed cleanly with an unfinished reindex: 64 keys in the old table, 1 in the
// new one. All 65 are returned by `get` on the source.
//
// `migrate` always opens the source with its background threads, which resume the reindex
// concurrently with the walk; the entries become visible to the walk when the first reindex batch
// (a scan of the old table) is logged. The keys are placed in the very first chunk that the walk
// reads, and the old table is made large so that the batch takes far longer than that.
//
// Run: cargo test --offline --features instrumentation --test hunt_HC20_2

#![cfg(feature = "instrumentation")]

use parity_db::{ColumnOptions, CompressionType, Db, Options};
use tempfile::tempdir;

// Bits of the old index table when the database is closed. With `uniform` keys and the zero salt
// the key bytes select the index chunk, keys that share their first OLD_BITS bits share a chunk.
const OLD_BITS: u32 = 18;

fn key(i: u32) -> Vec<u8> {
	assert!(i < 128);
	let mut k = [0u8; 32];
	// First OLD_BITS bits are zero, the next 7 bits are `i`: all keys share chunk 0 of every index
	// table of up to OLD_BITS bits and are spread over the chunks 0 and 1 of the next one.
	let prefix: u64 = (i as u64) << (64 - OLD_BITS - 7);
	k[0..8].copy_from_slice(&prefix.to_be_bytes());
	k[31] = 1;
	k.to_vec()
}

fn value(i: u32) -> Vec<u8> {
	format!("value-{i}").into_bytes()
}

fn source_options(path: &std::path::Path) -> Options {
	let mut options = Options::with_columns(path, 1);
	options.columns[0] = ColumnOptions { uniform: true, ..Default::default() };
	options.salt = Some([0; 32]);
	options
}

fn index_files(path: &std::path::Path) -> Vec<String> {
	let mut files: Vec<String> = std::fs::read_dir(path)
		.unwrap()
		.map(|e| e.unwrap().file_name().into_string().unwrap())
		.filter(|n| n.starts_with("index_"))
		.collect();
	files.sort();
	files
}

#[test]
fn keys_in_an_index_table_that_is_still_being_reindexed_are_migrated() {
	let dir = tempdir().unwrap();
	let source_dir = dir.path().join("source");
	let dest_dir = dir.path().join("dest");
	let n = 65;

	{
		let mut options = source_options(&source_dir);
		options.with_background_thread = false;
		let db = Db::open_or_create(&options).unwrap();
		// 64 entries fill chunk 0 of the 16 bit table, the 65th starts a 17 bit table. While the
		// keys share more bits than the table has, moving them fills chunk 0 of the next table too
		// and starts yet another one.
		db.commit((0..n).map(|i| (0u8, key(i), Some(value(i))))).unwrap();
		db.process_commits().unwrap();
		db.flush_logs().unwrap();
		db.enact_logs().unwrap();
		db.clean_logs().unwrap();
		let expected = vec![format!("index_00_{}", OLD_BITS), format!("index_00_{}", OLD_BITS + 1)];
		for _ in 0..64 {
			if index_files(&source_dir) == expected {
				break
			}
			// Move everything to the next table, which overflows in turn.
			db.process_reindex().unwrap();
			db.flush_logs().unwrap();
			db.enact_logs().unwrap();
			db.clean_logs().unwrap();
		}
		// Closed here: the last reindex has not been started.
	}
	assert_eq!(
		index_files(&source_dir),
		vec![format!("index_00_{}", OLD_BITS), format!("index_00_{}", OLD_BITS + 1)],
		"test setup: the source is expected to be closed in the middle of a reindex"
	);
	{
		// Every key is there as far as the source is concerned.
		let mut options = source_options(&source_dir);
		options.with_background_thread = false;
		let db = Db::open(&options).unwrap();
		for i in 0..n {
			assert_eq!(db.get(0, &key(i)).unwrap(), Some(value(i)));
		}
	}

	let mut dest = source_options(&dest_dir);
	dest.columns[0].compression = CompressionType::Lz4;
	parity_db::migrate(&source_dir, dest.clone(), false, &[]).unwrap();

	// The source still has everything.
	{
		let db = Db::open(&source_options(&source_dir)).unwrap();
		for i in 0..n {
			assert_eq!(db.get(0, &key(i)).unwrap(), Some(value(i)));
		}
	}

	let db = Db::open(&dest).unwrap();
	let missing: Vec<u32> =
		(0..n).filter(|i| db.get(0, &key(*i)).unwrap() != Some(value(*i))).collect();
	assert!(
		missing.is_empty(),
		"{} of the {} keys of the source are not in the destination: {:?}",
		missing.len(),
		n,
		missing
	);
}
