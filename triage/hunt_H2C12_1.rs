// Property C12: no table byte may be modified on behalf of a record whose log bytes were not
// (completely) synced; recovery yields a prefix of the committed transactions.
//
// History: T0 = {K1=old, K2=old} goes through the whole pipeline. T1 = {K1=new, K2=new}: the write
// of T1's log record fails part-way (I/O fault in `LogChange::flush_to_file`, e.g. a full disk).
// The log worker stops with that error. The flush worker runs once more (`flush_logs`), then the
// commit worker (`enact_logs`). Power loss (directory copied), recovery, read K1 and K2.
//
// cargo test --offline --features instrumentation --test hunt_H2C12_1 -- --nocapture
#![cfg(feature = "instrumentation")]

use parity_db::{set_number_of_allowed_io_operations, Db, Options};
use std::path::Path;

fn copy_dir(from: &Path, to: &Path) {
	std::fs::create_dir_all(to).unwrap();
	for e in std::fs::read_dir(from).unwrap() {
		let e = e.unwrap();
		let name = e.file_name();
		if name == "lock" {
			continue
		}
		std::fs::copy(e.path(), to.join(name)).unwrap();
	}
}

fn key(b: u8) -> Vec<u8> {
	vec![b; 32]
}

#[allow(dead_code)]
#[derive(Debug)]
struct Outcome {
	fault_after: usize,
	log_write_failed: bool,
	enact: String,
	k1_new: bool,
	k2_new: bool,
}

/// Returns `None` once the fault budget is large enough for T1 to be logged without a fault.
fn scenario(fault_after: usize) -> Option<Outcome> {
	let dir = tempfile::tempdir().unwrap();
	let path = dir.path().join("db");
	let mut options = Options::with_columns(&path, 1);
	options.salt = Some([1; 32]);
	options.with_background_thread = false;
	options.always_flush = true;
	assert!(options.sync_wal && options.sync_data);

	let old1 = vec![0x11u8; 100];
	let old2 = vec![0x22u8; 100];
	let new1 = vec![0xa1u8; 100];
	let new2 = vec![0xa2u8; 100];

	let db = Db::open_or_create(&options).unwrap();
	db.commit(vec![(0u8, key(1), Some(old1.clone())), (0u8, key(2), Some(old2.clone()))]).unwrap();
	db.process_commits().unwrap();
	db.flush_logs().unwrap();
	db.enact_logs().unwrap();
	db.clean_logs().unwrap();

	// An unrelated transaction is logged first; the flush worker has not taken the log file yet.
	db.commit(vec![(0u8, key(3), Some(vec![0x33u8; 100]))]).unwrap();
	db.process_commits().unwrap();

	// T1 replaces both values in place: its record is two value-slot writes.
	db.commit(vec![(0u8, key(1), Some(new1.clone())), (0u8, key(2), Some(new2.clone()))]).unwrap();
	set_number_of_allowed_io_operations(fault_after);
	let logged = db.process_commits();
	set_number_of_allowed_io_operations(usize::MAX);
	if logged.is_ok() {
		return None
	}
	// The log worker is gone. The flush worker and the commit worker each do what they do when they
	// are woken up (by the shutdown that follows a worker error, or by an earlier record).
	let _ = db.flush_logs();
	let enact = match db.enact_logs() {
		Ok(()) => "ok".to_string(),
		Err(e) => format!("{e}"),
	};

	// Power loss: every page written so far reaches the disk, nothing else happens.
	let crash = dir.path().join("crash");
	copy_dir(&path, &crash);
	drop(db);

	let mut options2 = Options::with_columns(&crash, 1);
	options2.salt = Some([1; 32]);
	let db2 = Db::open(&options2).unwrap();
	let v1 = db2.get(0, &key(1)).unwrap().expect("K1 was committed by T0");
	let v2 = db2.get(0, &key(2)).unwrap().expect("K2 was committed by T0");
	assert!(v1 == old1 || v1 == new1);
	assert!(v2 == old2 || v2 == new2);
	Some(Outcome {
		fault_after,
		log_write_failed: true,
		enact,
		k1_new: v1 == new1,
		k2_new: v2 == new2,
	})
}

#[test]
fn record_whose_log_write_failed_is_not_applied() {
	let mut torn = Vec::new();
	for n in 0..200 {
		match scenario(n) {
			None => break,
			Some(o) => {
				println!("{o:?}");
				if o.k1_new != o.k2_new {
					torn.push(o);
				}
			},
		}
	}
	assert!(
		torn.is_empty(),
		"transaction T1 = {{K1, K2}} is torn after recovery (its log record was never written completely): {torn:?}"
	);
}
