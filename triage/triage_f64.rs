// C13: "Whatever bytes the write-ahead log files contain at open ... opening the database does
// not panic".
//
// A log file that holds one complete, checksum-valid record whose id is u64::MAX makes `Db::open`
// panic (`attempt to add with overflow`, src/log.rs `Log::end_read`, `record_id + 1`) in builds
// with overflow checks (debug / test profile). In release the counter wraps to 0 (see the second
// test): the database then numbers its records 0, 1, 2, ... and the next replay rejects all of them.
//
// cargo test --offline --features instrumentation --test hunt_H3C13_1

use parity_db::{ColumnOptions, Db, Options};
use std::path::Path;

fn options(path: &Path) -> Options {
	let mut o = Options::with_columns(path, 1);
	o.columns[0] = ColumnOptions { uniform: true, ..Default::default() };
	o.salt = Some([0; 32]);
	o.with_background_thread = false;
	o.stats = false;
	o
}

fn key(n: u8) -> [u8; 32] {
	let mut k = [0u8; 32];
	k[0] = n;
	k[31] = 1;
	k
}

fn crc32(data: &[u8]) -> u32 {
	// plain bitwise CRC-32 (IEEE), same polynomial as crc32fast
	let mut crc = 0xffff_ffffu32;
	for b in data {
		crc ^= *b as u32;
		for _ in 0..8 {
			crc = if crc & 1 != 0 { (crc >> 1) ^ 0xedb8_8320 } else { crc >> 1 };
		}
	}
	!crc
}

// BEGIN_RECORD, id, END_RECORD, crc over everything before the crc.
fn empty_record(id: u64) -> Vec<u8> {
	let mut rec = vec![1u8];
	rec.extend_from_slice(&id.to_le_bytes());
	rec.push(4u8);
	let crc = crc32(&rec);
	rec.extend_from_slice(&crc.to_le_bytes());
	rec
}

fn prepare(dir: &Path) {
	let db = Db::open_or_create(&options(dir)).unwrap();
	db.commit(vec![(0u8, key(1), Some(b"one".to_vec()))]).unwrap();
	db.process_commits().unwrap();
	db.flush_logs().unwrap();
	db.enact_logs().unwrap();
	db.clean_logs().unwrap();
	drop(db);
	assert!(!dir.join("log0").exists(), "a clean shutdown leaves no log");
}

// Control: the hand-made record is accepted as a record by the library (id 1, what a fresh
// session writes first).
#[test]
fn control_empty_record_with_id_1_is_fine() {
	let tmp = tempfile::tempdir().unwrap();
	let dir = tmp.path().join("db");
	prepare(&dir);
	std::fs::write(dir.join("log0"), empty_record(1)).unwrap();
	let db = Db::open(&options(&dir)).unwrap();
	assert_eq!(db.get(0, &key(1)).unwrap(), Some(b"one".to_vec()));
}

#[test]
fn open_does_not_panic_on_record_id_max() {
	let tmp = tempfile::tempdir().unwrap();
	let dir = tmp.path().join("db");
	prepare(&dir);
	std::fs::write(dir.join("log0"), empty_record(u64::MAX)).unwrap();
	let opts = options(&dir);
	let r = std::panic::catch_unwind(move || {
		let db = Db::open(&opts);
		match db {
			Ok(db) => {
				assert_eq!(db.get(0, &key(1)).unwrap(), Some(b"one".to_vec()));
				true
			},
			Err(_) => false,
		}
	});
	assert!(r.is_ok(), "Db::open panicked on a log file with record id u64::MAX");
}

// What the wrap-around does where the addition does not panic (release): the session that
// opened such a file numbers its records from 0, and a later replay throws all of them away.
// Runs in both profiles: with overflow checks the open already panics (caught -> test fails too).
#[test]
fn commits_after_record_id_max_survive_a_crash() {
	let tmp = tempfile::tempdir().unwrap();
	let dir = tmp.path().join("db");
	prepare(&dir);
	std::fs::write(dir.join("log0"), empty_record(u64::MAX)).unwrap();
	let opts = options(&dir);
	let image = tmp.path().join("image");
	let image2 = image.clone();
	let r = std::panic::catch_unwind(move || {
		let db = Db::open(&opts).unwrap();
		db.commit(vec![(0u8, key(2), Some(b"two".to_vec()))]).unwrap();
		db.process_commits().unwrap();
		db.flush_logs().unwrap();
		// crash image: the record is logged and flushed, not enacted
		std::fs::create_dir_all(&image2).unwrap();
		for e in std::fs::read_dir(&opts.path).unwrap() {
			let e = e.unwrap();
			if e.file_name() != "lock" {
				std::fs::copy(e.path(), image2.join(e.file_name())).unwrap();
			}
		}
	});
	assert!(r.is_ok(), "panic while opening / committing");
	let db = Db::open(&options(&image)).unwrap();
	assert_eq!(db.get(0, &key(1)).unwrap(), Some(b"one".to_vec()));
	assert_eq!(
		db.get(0, &key(2)).unwrap(),
		Some(b"two".to_vec()),
		"a logged and flushed commit was dropped at replay"
	);
}
