# Imposes the schedule for tests/hunt_H5C17_1.rs: the thread that calls Db::reset_column is
# preempted inside precheck_column_operation, between Db::open and the shutdown of that
# session (first statement of Db::drop_inner), while the session's workers run.
#
#   cargo test --offline --features instrumentation --test hunt_H5C17_1 --no-run
#   gdb -batch -x tests/hunt_H5C17_1.gdb --args target/debug/deps/hunt_H5C17_1-<hash> --test-threads=1 --nocapture
set pagination off
set confirm off
set breakpoint pending on
set print thread-events off
# Only the thread that hits a breakpoint stops, the others keep running.
set non-stop on
set language c
break hunt_arm
run
python
import gdb, time
def select_stopped():
    for t in gdb.selected_inferior().threads():
        if t.is_stopped():
            t.switch()
            return t
    raise gdb.GdbError("no stopped thread")
# In hunt_arm, called by the test right before Db::reset_column.
select_stopped()
gdb.execute("set var *(int*)&HUNT_GDB = 1")
# Db::drop_inner begins with `self.inner.shutdown();` (src/db.rs:1997): the next hit is the
# close of the precheck session, the shutdown flag is not set yet.
gdb.execute("set language rust")
gdb.execute("break parity_db::db::Db::drop_inner")
gdb.execute("set language c")
gdb.execute("continue")
select_stopped()
gdb.execute("bt 6")
# The caller's thread stays stopped at the breakpoint; all other threads run. It is let go
# once the test's logger has counted enough queued log files, or after 20 s.
for i in range(2000):
    if int(gdb.parse_and_eval("*(int*)&HUNT_READY")) != 0:
        break
    time.sleep(0.01)
print("HUNT_READY = %d after %d waits" % (int(gdb.parse_and_eval("*(int*)&HUNT_READY")), i))
gdb.execute("delete")
gdb.execute("continue")
end
