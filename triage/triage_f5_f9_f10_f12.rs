use parity_db::{ColumnOptions, Db, NewNode, NodeRef, Operation, Options};
use std::path::Path;

fn opts(p: &Path, cols: Vec<ColumnOptions>) -> Options {
    let mut o = Options::with_columns(p, cols.len() as u8);
    o.columns = cols;
    o.with_background_thread = false;
    o.always_flush = true;
    o
}
fn copy_dir(from: &Path, to: &Path) {
    std::fs::create_dir_all(to).unwrap();
    for e in std::fs::read_dir(from).unwrap() {
        let e = e.unwrap();
        if e.file_name() == "lock" { continue }
        std::fs::copy(e.path(), to.join(e.file_name())).unwrap();
    }
}

#[test]
fn f5_size_7fff_panics_open() {
    let d = tempfile::tempdir().unwrap();
    let o = opts(d.path(), vec![Default::default()]);
    let db = Db::open_or_create(&o).unwrap();
    db.commit(vec![(0u8, b"key1".to_vec(), Some(b"value1".to_vec()))]).unwrap();
    db.process_commits().unwrap();
    db.flush_logs().unwrap();
    let d2 = tempfile::tempdir().unwrap();
    copy_dir(d.path(), d2.path());
    let logp = d2.path().join("log0");
    let mut b = std::fs::read(&logp).unwrap();
    let mut p = 9;
    loop {
        match b[p] {
            2 => { let mask = u64::from_le_bytes(b[p+11..p+19].try_into().unwrap()); p += 19 + 8 * mask.count_ones() as usize; }
            3 => { let idx = u64::from_le_bytes(b[p+3..p+11].try_into().unwrap());
                   if idx == 0 { p += 11 + 16; continue }
                   println!("F5 INSERT_VALUE at {} index {} size bytes {:02x?}", p, idx, &b[p+11..p+13]);
                   b[p+11] = 0xff; b[p+12] = 0x7f; break }
            x => panic!("unexpected action {x} at {p}"),
        }
    }
    std::fs::write(&logp, &b).unwrap();
    let o2 = opts(d2.path(), vec![Default::default()]);
    let r = std::panic::catch_unwind(|| Db::open(&o2).map(|_| ()));
    println!("F5 open on log with size 0x7fff: panicked = {}", r.is_err());
    std::mem::forget(db);
}

#[test]
fn f9_clear_column_with_pending_log() {
    let d = tempfile::tempdir().unwrap();
    let o = opts(d.path(), vec![Default::default(), Default::default()]);
    let db = Db::open_or_create(&o).unwrap();
    db.commit(vec![(1u8, b"key1".to_vec(), Some(b"value1".to_vec()))]).unwrap();
    db.process_commits().unwrap();
    db.flush_logs().unwrap();
    let d2 = tempfile::tempdir().unwrap();
    copy_dir(d.path(), d2.path()); // crash image with a synced, unapplied log
    std::mem::forget(db);
    parity_db::clear_column(d2.path(), 1).unwrap();
    let o2 = opts(d2.path(), vec![Default::default(), Default::default()]);
    let db2 = Db::open(&o2).unwrap();
    println!("F9 after clear_column(1) + open: get(1,key1) = {:?}", db2.get(1, b"key1").unwrap());
}

#[test]
fn f12_migrate_rc2_to_plain() {
    let d = tempfile::tempdir().unwrap();
    let src = d.path().join("src"); let dst = d.path().join("dst");
    let mut c = ColumnOptions::default(); c.ref_counted = true; c.preimage = true;
    {
        let o = opts(&src, vec![c.clone()]);
        let db = Db::open_or_create(&o).unwrap();
        db.commit(vec![(0u8, b"key1".to_vec(), Some(b"value1".to_vec()))]).unwrap();
        db.commit(vec![(0u8, b"key1".to_vec(), Some(b"value1".to_vec()))]).unwrap();
    }
    let mut to = opts(&dst, vec![ColumnOptions::default()]);
    to.with_background_thread = true; to.always_flush = false;
    parity_db::migrate(&src, to.clone(), false, &[0]).unwrap();
    let db = Db::open(&to).unwrap();
    println!("F12 dest get(key1) = {:?}", db.get(0, b"key1").unwrap());
}

#[test]
fn f10_migrate_unselected_multitree_column() {
    let d = tempfile::tempdir().unwrap();
    let src = d.path().join("src"); let dst = d.path().join("dst");
    let mut mt = ColumnOptions::default(); mt.multitree = true; mt.allow_direct_node_access = true;
    {
        let o = opts(&src, vec![ColumnOptions::default(), mt.clone()]);
        let db = Db::open_or_create(&o).unwrap();
        let leaf = NewNode { data: b"leaf".to_vec(), children: vec![] };
        db.commit_changes(vec![(1, Operation::InsertTree(b"t1".to_vec(), NewNode { data: b"r1".to_vec(), children: vec![NodeRef::New(leaf)] }))]).unwrap();
        db.process_commits().unwrap(); db.flush_logs().unwrap(); db.enact_logs().unwrap();
        let (_, ch) = db.get_root(1, b"t1").unwrap().unwrap();
        db.commit_changes(vec![(1, Operation::InsertTree(b"t2".to_vec(), NewNode { data: b"r2".to_vec(), children: vec![NodeRef::Existing(ch[0])] }))]).unwrap();
    }
    println!("F10 src files: {:?}", std::fs::read_dir(&src).unwrap().map(|e| e.unwrap().file_name()).filter(|n| n.to_str().unwrap().starts_with("refcount")).collect::<Vec<_>>());
    let mut to = opts(&dst, vec![ColumnOptions::default(), mt.clone()]);
    to.with_background_thread = true; to.always_flush = false;
    parity_db::migrate(&src, to.clone(), false, &[0]).unwrap();
    println!("F10 dst files: {:?}", std::fs::read_dir(&dst).unwrap().map(|e| e.unwrap().file_name()).filter(|n| n.to_str().unwrap().starts_with("refcount")).collect::<Vec<_>>());
}
