// HC13 finding 1: a single flipped bit in the table-id byte of an INSERT_INDEX action of a
// logged-but-not-enacted record makes `Db::open` act on the record before its CRC is checked:
// the validation pass treats the unknown index id as "a reindex that was in progress" and
// switches the column to a new, larger index (once per missing bit, recursively). With the bit
// that turns 16 into 80 the open panics (shift overflow in `total_chunks`); with the bit that
// turns 16 into 48 the open "succeeds" but the column is left pointing at a 2^48-chunk index.
//
// Run: cargo test --offline --features instrumentation --test hunt_HC13_1

#![cfg(feature = "instrumentation")]

use parity_db::{ColumnOptions, Db, Options};
use std::path::Path;

fn options(path: &Path) -> Options {
	let mut o = Options::with_columns(path, 1);
	o.columns[0] = ColumnOptions { uniform: true, ..Default::default() };
	o.salt = Some([0; 32]);
	o.with_background_thread = false;
	o
}

fn copy_db(from: &Path, to: &Path) {
	std::fs::create_dir_all(to).unwrap();
	for e in std::fs::read_dir(from).unwrap() {
		let e = e.unwrap();
		if e.file_name() == "lock" {
			continue
		}
		std::fs::copy(e.path(), to.join(e.file_name())).unwrap();
	}
}

fn key(b: u8) -> Vec<u8> {
	let mut k = vec![b; 32];
	k[0] = b;
	k
}

/// Builds: key A fully enacted and its log cleaned; key B logged and flushed to log file but not
/// enacted. Returns the crash image directory and the name of the only non-empty log file.
fn build(tmp: &Path) -> (std::path::PathBuf, std::path::PathBuf) {
	let live = tmp.join("live");
	let crash = tmp.join("crash");
	let db = Db::open_or_create(&options(&live)).unwrap();
	db.commit(vec![(0u8, key(1), Some(b"value-A".to_vec()))]).unwrap();
	db.process_commits().unwrap();
	db.flush_logs().unwrap();
	db.enact_logs().unwrap();
	db.clean_logs().unwrap();
	db.commit(vec![(0u8, key(2), Some(b"value-B".to_vec()))]).unwrap();
	db.process_commits().unwrap();
	db.flush_logs().unwrap();
	copy_db(&live, &crash);
	drop(db);
	let mut logs: Vec<_> = std::fs::read_dir(&crash)
		.unwrap()
		.map(|e| e.unwrap())
		.filter(|e| e.file_name().to_str().unwrap().starts_with("log"))
		.filter(|e| e.metadata().unwrap().len() > 0)
		.map(|e| e.path())
		.collect();
	assert_eq!(logs.len(), 1, "exactly one non-empty log in the crash image");
	let log = logs.pop().unwrap();
	let bytes = std::fs::read(&log).unwrap();
	// BEGIN_RECORD, 8 bytes id, then the first action: INSERT_INDEX (2), table id u16 LE whose
	// low byte is the index size in bits (16 for a fresh column).
	assert_eq!(bytes[0], 1);
	assert_eq!(bytes[9], 2);
	assert_eq!(bytes[10], 16);
	assert_eq!(bytes[11], 0);
	(crash, log)
}

fn flip(log: &Path, offset: usize, bit: u8) {
	let mut bytes = std::fs::read(log).unwrap();
	bytes[offset] ^= 1 << bit;
	std::fs::write(log, bytes).unwrap();
}

fn check_after_open(crash: &Path) {
	// Opening must not panic and must reject the damaged record.
	let db = Db::open(&options(crash)).unwrap();
	assert_eq!(db.get(0, &key(1)).unwrap(), Some(b"value-A".to_vec()));
	assert_eq!(db.get(0, &key(2)).unwrap(), None, "damaged record must not be applied");
	// Nothing of the damaged record may have been acted upon: the database keeps working.
	db.commit(vec![(0u8, key(3), Some(b"value-C".to_vec()))]).unwrap();
	db.process_commits().unwrap();
	db.flush_logs().unwrap();
	db.enact_logs().unwrap();
	db.clean_logs().unwrap();
	for _ in 0..4 {
		db.process_reindex().unwrap();
		db.flush_logs().unwrap();
		db.enact_logs().unwrap();
		db.clean_logs().unwrap();
	}
	assert_eq!(db.get(0, &key(1)).unwrap(), Some(b"value-A".to_vec()));
	assert_eq!(db.get(0, &key(3)).unwrap(), Some(b"value-C".to_vec()));
	drop(db);
	let names: Vec<String> = std::fs::read_dir(crash)
		.unwrap()
		.map(|e| e.unwrap().file_name().to_str().unwrap().to_string())
		.filter(|n| n.starts_with("index_"))
		.collect();
	assert_eq!(names, vec!["index_00_16".to_string()], "a rejected record must not resize the index");
}

#[test]
fn flipped_index_bits_bit6_must_not_panic() {
	let tmp = tempfile::tempdir().unwrap();
	let (crash, log) = build(tmp.path());
	flip(&log, 10, 6); // 16 -> 80
	check_after_open(&crash);
}

#[test]
fn flipped_index_bits_bit5_must_not_switch_index() {
	let tmp = tempfile::tempdir().unwrap();
	let (crash, log) = build(tmp.path());
	flip(&log, 10, 5); // 16 -> 48
	check_after_open(&crash);
}

#[test]
fn flipped_index_bits_bit0_must_not_start_reindex() {
	let tmp = tempfile::tempdir().unwrap();
	let (crash, log) = build(tmp.path());
	flip(&log, 10, 0); // 16 -> 17
	check_after_open(&crash);
}

#[test]
fn control_undamaged_log_is_replayed() {
	let tmp = tempfile::tempdir().unwrap();
	let (crash, _log) = build(tmp.path());
	let db = Db::open(&options(&crash)).unwrap();
	assert_eq!(db.get(0, &key(1)).unwrap(), Some(b"value-A".to_vec()));
	assert_eq!(db.get(0, &key(2)).unwrap(), Some(b"value-B".to_vec()));
}
