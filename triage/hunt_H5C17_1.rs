// C17: `Db::reset_column` / `clear_column` must leave the affected column empty.
//
// The administration calls open the database and close it again before they delete the files
// of the column ("precheck"). The close (`DbInner::kill_logs`) reads at most three log files
// (each of its three `while self.enact_logs(false)? {}` loops ends at the end of one file).
// When the background workers of the precheck session have flushed more log files than that
// by the time the caller's thread shuts the session down (reindex records of an index growth
// that was under way), the rest stays on disk, the column's files are deleted, and the next
// `Db::open` replays the leftover reindex records into the emptied column: its index is back,
// pointing into value tables that do not exist any more.
//
// The schedule needs the thread that called `reset_column` to be preempted between
// `Db::open` and `Db::close` inside `precheck_column_operation` (no call in that window that
// a test could slow down). It is imposed with gdb, see hunt_H5C17_1.gdb. Without gdb the
// test passes.
#![cfg(feature = "instrumentation")]

use parity_db::{ColumnOptions, Db, Options};
use std::sync::atomic::{AtomicBool, AtomicUsize, Ordering};

// Set by the gdb script: the commit worker of the precheck session is held back in the logger.
#[no_mangle]
pub static mut HUNT_GDB: i32 = 0;
// Read by the gdb script: enough log files are queued, let the caller's thread go on.
#[no_mangle]
pub static mut HUNT_READY: i32 = 0;

#[no_mangle]
#[inline(never)]
pub extern "C" fn hunt_arm() {
	ARMED.store(true, Ordering::SeqCst);
}

static ARMED: AtomicBool = AtomicBool::new(false);
static GATE_TAKEN: AtomicBool = AtomicBool::new(false);
static RELEASE: AtomicBool = AtomicBool::new(false);
static FILES_SINCE_GATE: AtomicUsize = AtomicUsize::new(0);
static REINDEX_RECORDS: AtomicUsize = AtomicUsize::new(0);

struct Logger;

impl log::Log for Logger {
	fn enabled(&self, m: &log::Metadata) -> bool {
		m.level() <= log::Level::Debug
	}

	fn log(&self, record: &log::Record) {
		if !ARMED.load(Ordering::SeqCst) || record.level() > log::Level::Debug {
			return
		}
		let msg = format!("{}", record.args());
		let worker = std::thread::current().name().is_none();
		if msg.starts_with("Created reindex record") {
			REINDEX_RECORDS.fetch_add(1, Ordering::SeqCst);
		}
		if msg.starts_with("Flush: Activated") && GATE_TAKEN.load(Ordering::SeqCst) {
			// A new log file is begun: the one before it is complete.
			if FILES_SINCE_GATE.fetch_add(1, Ordering::SeqCst) + 1 >= 9 {
				unsafe { std::ptr::write_volatile(std::ptr::addr_of_mut!(HUNT_READY), 1) };
			}
		}
		if msg.starts_with("Log worker shutdown") {
			RELEASE.store(true, Ordering::SeqCst);
		}
		let gdb = unsafe { std::ptr::read_volatile(std::ptr::addr_of!(HUNT_GDB)) } != 0;
		if gdb &&
			worker && msg.starts_with("Enacting log record") &&
			!GATE_TAKEN.swap(true, Ordering::SeqCst)
		{
			// The commit worker is slow (as it is when it has to wait for the cleanup worker's
			// fsync): it gets to its first record only when the session is being shut down.
			let start = std::time::Instant::now();
			while !RELEASE.load(Ordering::SeqCst) && start.elapsed().as_secs() < 60 {
				std::thread::sleep(std::time::Duration::from_millis(1));
			}
		}
	}

	fn flush(&self) {}
}

static LOGGER: Logger = Logger;

fn key(i: u64) -> Vec<u8> {
	// splitmix64, four words: uniformly distributed 32 bytes.
	let mut k = Vec::with_capacity(32);
	let mut x = i.wrapping_mul(0x9E3779B97F4A7C15).wrapping_add(0x1234567);
	for _ in 0..4 {
		x = x.wrapping_add(0x9E3779B97F4A7C15);
		let mut z = x;
		z = (z ^ (z >> 30)).wrapping_mul(0xBF58476D1CE4E5B9);
		z = (z ^ (z >> 27)).wrapping_mul(0x94D049BB133111EB);
		z ^= z >> 31;
		k.extend_from_slice(&z.to_be_bytes());
	}
	k
}

fn colliding_key(i: u64) -> Vec<u8> {
	// All in chunk 0xABCD of a 16 bit index, in two chunks of a 17 bit index.
	let mut k = key(1_000_000_000 + i);
	k[0] = 0xAB;
	k[1] = 0xCD;
	k[2] = (i as u8).wrapping_mul(37);
	k
}

fn step(db: &Db) {
	db.process_commits().unwrap();
	db.flush_logs().unwrap();
	db.enact_logs().unwrap();
	db.clean_logs().unwrap();
}

const N: u64 = 300_000;

#[test]
fn reset_column_during_index_growth() {
	log::set_logger(&LOGGER).unwrap();
	log::set_max_level(log::LevelFilter::Debug);

	let dir = tempfile::tempdir().unwrap();
	let path = dir.path().join("db");
	let mut options = Options::with_columns(&path, 2);
	options.salt = Some([0; 32]);
	options.columns[0] = ColumnOptions { uniform: true, ..Default::default() };
	options.columns[1] = ColumnOptions { btree_index: true, ..Default::default() };
	options.with_background_thread = false;
	options.always_flush = true;

	// Column 0: N entries in index_00_16, then one chunk overflows: index_00_17 is begun, the
	// entries of index_00_16 wait for the log worker to move them (which this session has not).
	{
		let db = Db::open_or_create(&options).unwrap();
		let mut i = 0;
		while i < N {
			let batch: Vec<_> =
				(i..i + 10_000).map(|i| (0u8, key(i), Some(i.to_le_bytes().to_vec()))).collect();
			db.commit(batch).unwrap();
			step(&db);
			i += 10_000;
		}
		db.commit((0..70).map(|i| (0u8, colliding_key(i), Some(vec![7u8; 8])))).unwrap();
		db.commit((0..100u64).map(|i| (1u8, key(i), Some(vec![1u8; 20])))).unwrap();
		step(&db);
		assert_eq!(db.get(0, &key(5)).unwrap(), Some(5u64.to_le_bytes().to_vec()));
	}
	assert!(path.join("index_00_16").exists(), "setup: old index");
	assert!(path.join("index_00_17").exists(), "setup: new index");
	assert!(!path.join("log0").exists(), "setup: no logs");

	// The administration call, with the worker threads a user has.
	let mut admin = options.clone();
	admin.with_background_thread = true;
	hunt_arm();
	Db::reset_column(&mut admin, 0, None).unwrap();
	ARMED.store(false, Ordering::SeqCst);
	eprintln!(
		"reindex records written by the precheck session: {}, log files begun while the commit worker was held: {}",
		REINDEX_RECORDS.load(Ordering::SeqCst),
		FILES_SINCE_GATE.load(Ordering::SeqCst),
	);

	let mut names: Vec<String> = std::fs::read_dir(&path)
		.unwrap()
		.map(|e| e.unwrap().file_name().into_string().unwrap())
		.collect();
	names.sort();
	eprintln!("directory after reset_column: {:?}", names);
	assert!(
		!names.iter().any(|n| n.starts_with("index_00") || n.starts_with("table_00")),
		"files of column 0 left: {:?}",
		names
	);

	// Column 0 has to be empty, column 1 as it was.
	let db = Db::open(&options).unwrap();
	for i in 0..100u64 {
		assert_eq!(db.get(1, &key(i)).unwrap(), Some(vec![1u8; 20]), "column 1 key {}", i);
	}
	let mut entries = 0u64;
	let r = std::panic::catch_unwind(std::panic::AssertUnwindSafe(|| {
		for i in 0..N {
			if let Some(v) = db.get(0, &key(i)).unwrap() {
				panic!("column 0 still has key {} = {:?}", i, v);
			}
		}
	}));
	db.iter_column_while(0, |_| {
		entries += 1;
		true
	})
	.unwrap();
	drop(db);
	let after: Vec<String> = std::fs::read_dir(&path)
		.unwrap()
		.map(|e| e.unwrap().file_name().into_string().unwrap())
		.filter(|n| n.starts_with("index_00") || n.starts_with("table_00"))
		.collect();
	assert!(r.is_ok(), "reading the reset column 0 panics; files of column 0: {:?}", after);
	assert_eq!(entries, 0, "values in reset column 0");
	assert!(
		after.is_empty(),
		"the reset column 0 got files back on the next open (nothing was written): {:?}",
		after
	);
}
