// H2C09 finding 1: `parity_db::migrate` (and every other user of the index iteration) walks only the
// *current* index table of a hash column. Entries that still live in an older index table that is
// queued for reindexing are silently left out of the migrated database.
//
// Run: cargo test --offline --features instrumentation --test hunt_H2C09_1
// (H2C09_NO_GATE=1 runs it without the scheduling aid below; it failed 8 out of 8 times that way too.)
#![cfg(feature = "instrumentation")]

use parity_db::{migrate, Db, Options};
use std::sync::{Condvar, Mutex};

fn key(i: u32) -> Vec<u8> {
	// zero salt + uniform => identity hash. All keys land in index chunk 0 of the 16 bit index.
	let mut key = [0u8; 32];
	key[2] = (i as u8) << 1;
	key[31] = 1; // never the all-zero key
	key.to_vec()
}

fn options(path: &std::path::Path) -> Options {
	let mut options = Options::with_columns(path, 1);
	options.columns[0].uniform = true;
	options.salt = Some([0u8; 32]);
	options
}

// Build a database that was closed (cleanly) while an index growth 16 -> 17 was still pending:
// 64 entries in index_00_16, the 65th in index_00_17.
fn build_source(path: &std::path::Path) {
	let mut options = options(path);
	options.with_background_thread = false;
	options.always_flush = true;
	let db = Db::open_or_create(&options).unwrap();
	db.commit((0..65u32).map(|i| (0u8, key(i), Some(vec![i as u8; 8])))).unwrap();
	db.process_commits().unwrap();
	db.flush_logs().unwrap();
	db.enact_logs().unwrap();
	db.clean_logs().unwrap();
	for i in 0..65 {
		assert_eq!(db.get(0, &key(i)).unwrap(), Some(vec![i as u8; 8]));
	}
	drop(db);
	assert!(path.join("index_00_16").exists());
	assert!(path.join("index_00_17").exists());
}

// The log worker of the source database starts to move the old entries as soon as the database is
// opened inside `migrate`. Whether the iteration sees them depends on who is first. This logger
// only delays that worker (an ordinary schedule: the thread is preempted before its first batch)
// until the iteration of the column is over; it changes nothing else.
struct Gate {
	iteration_done: Mutex<bool>,
	cv: Condvar,
}

static GATE: Gate = Gate { iteration_done: Mutex::new(false), cv: Condvar::new() };

impl log::Log for Gate {
	fn enabled(&self, _: &log::Metadata) -> bool {
		true
	}
	fn log(&self, record: &log::Record) {
		let msg = format!("{}", record.args());
		if msg.contains("Continue reindex at") {
			// Log worker, about to collect its first batch.
			let mut done = self.iteration_done.lock().unwrap();
			let deadline = std::time::Instant::now() + std::time::Duration::from_secs(20);
			while !*done && std::time::Instant::now() < deadline {
				done = self.cv.wait_timeout(done, std::time::Duration::from_millis(100)).unwrap().0;
			}
		}
		if msg.starts_with("Queued commit") {
			// `migrate` commits what it collected (65 < COMMIT_SIZE items: one commit, after the
			// iteration has ended).
			*self.iteration_done.lock().unwrap() = true;
			self.cv.notify_all();
		}
	}
	fn flush(&self) {}
}

fn check_dest(dest_dir: &std::path::Path) -> Vec<u32> {
	let dest = Db::open(&options(dest_dir)).unwrap();
	(0..65u32).filter(|i| dest.get(0, &key(*i)).unwrap() != Some(vec![*i as u8; 8])).collect()
}

#[test]
fn migrate_while_growth_pending_loses_entries_of_the_old_index() {
	let dir = tempfile::tempdir().unwrap();
	let source_dir = dir.path().join("source");
	let dest_dir = dir.path().join("dest");
	build_source(&source_dir);

	if std::env::var("H2C09_NO_GATE").is_err() {
		log::set_logger(&GATE).unwrap();
		log::set_max_level(log::LevelFilter::Debug);
	}
	*GATE.iteration_done.lock().unwrap() = false;

	migrate(&source_dir, options(&dest_dir), false, &[0]).unwrap();
	log::set_max_level(log::LevelFilter::Off);

	let missing = check_dest(&dest_dir);
	assert!(
		missing.is_empty(),
		"{} of 65 keys are missing in the migrated database: {:?}",
		missing.len(),
		missing
	);
}
