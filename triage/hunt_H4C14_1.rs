// Property C14: a tree that is removed and inserted again while a reader holds the old tree.
//
// Run: cargo test --offline --features instrumentation --test hunt_H4C14_1
//
// `[DereferenceTree(K), InsertTree(K, new)]` is a supported transaction (remove the tree, then put a
// new one under the same key). When a reader holds the tree lock of K while the log worker looks at
// the commit, the removal is split off and queued again ("a deferral postpones only the tree
// removals") - BEHIND the insertion it was given in front of. The insertion then meets the old root.

#![cfg(feature = "instrumentation")]

use parity_db::{ColumnOptions, Db, NewNode, NodeRef, Operation, Options};

fn options(path: &std::path::Path, ref_counted: bool) -> Options {
	let mut o = Options::with_columns(path, 1);
	o.columns[0] = ColumnOptions {
		multitree: true,
		allow_direct_node_access: true,
		ref_counted,
		preimage: ref_counted,
		..Default::default()
	};
	o.with_background_thread = false;
	o.always_flush = true;
	o.salt = Some([7; 32]);
	o
}

fn leaf(data: &[u8]) -> NodeRef {
	NodeRef::New(NewNode { data: data.to_vec(), children: vec![] })
}

fn tree(root: &[u8], leaves: &[&[u8]]) -> NewNode {
	NewNode { data: root.to_vec(), children: leaves.iter().map(|l| leaf(l)).collect() }
}

fn drain(db: &Db) {
	for _ in 0..8 {
		db.process_commits().unwrap();
		db.flush_logs().unwrap();
		db.enact_logs().unwrap();
		db.clean_logs().unwrap();
	}
}

// (root data, data of the children) of the tree stored under `key`.
fn read_tree(db: &Db, key: &[u8]) -> Option<(Vec<u8>, Vec<Option<Vec<u8>>>)> {
	let (root, children) = db.get_root(0, key).unwrap()?;
	let children = children.iter().map(|a| db.get_node(0, *a).unwrap().map(|n| n.0)).collect();
	Some((root, children))
}

fn scenario(ref_counted: bool, reader_active: bool) -> (Option<(Vec<u8>, Vec<Option<Vec<u8>>>)>, u64) {
	scenario_tx(ref_counted, reader_active, true)
}

fn scenario_tx(
	ref_counted: bool,
	reader_active: bool,
	one_transaction: bool,
) -> (Option<(Vec<u8>, Vec<Option<Vec<u8>>>)>, u64) {
	let dir = tempfile::tempdir().unwrap();
	let options = options(dir.path(), ref_counted);
	let db = Db::open_or_create(&options).unwrap();
	let key = b"tree-K".to_vec();

	db.commit_changes(vec![(0, Operation::InsertTree(key.clone(), tree(b"old-root", &[b"old-1", b"old-2"])))])
		.unwrap();
	drain(&db);
	assert_eq!(db.get_num_column_value_entries(0).unwrap(), 3);

	// Somebody reads the old tree.
	let reader = db.get_tree(0, &key).unwrap().unwrap();
	let guard = if reader_active { Some(reader.read()) } else { None };

	// Replace the tree: remove it, insert another one under the same key.
	let new_tree = tree(b"new-root", &[b"new-1", b"new-2", b"new-3"]);
	if one_transaction {
		db.commit_changes(vec![
			(0, Operation::DereferenceTree(key.clone())),
			(0, Operation::InsertTree(key.clone(), new_tree)),
		])
		.unwrap();
	} else {
		db.commit_changes(vec![(0, Operation::DereferenceTree(key.clone()))]).unwrap();
		db.commit_changes(vec![(0, Operation::InsertTree(key.clone(), new_tree))]).unwrap();
	}
	// The log worker runs while the reader is still there.
	db.process_commits().unwrap();
	db.process_commits().unwrap();
	drop(guard);
	drop(reader);
	drain(&db);

	let result = (read_tree(&db, &key), db.get_num_column_value_entries(0).unwrap());
	drop(db);
	// Same after a clean reopen.
	let db = Db::open(&options).unwrap();
	assert_eq!(result, (read_tree(&db, &key), db.get_num_column_value_entries(0).unwrap()));
	result
}

fn expected() -> (Option<(Vec<u8>, Vec<Option<Vec<u8>>>)>, u64) {
	(
		Some((
			b"new-root".to_vec(),
			vec![Some(b"new-1".to_vec()), Some(b"new-2".to_vec()), Some(b"new-3".to_vec())],
		)),
		4,
	)
}

#[test]
fn control_tree_replaced_without_reader() {
	assert_eq!(scenario(false, false), expected());
}

#[test]
fn control_tree_replaced_without_reader_ref_counted() {
	assert_eq!(scenario(true, false), expected());
}

#[test]
fn tree_replaced_while_a_reader_holds_the_old_one() {
	// (tree under K, used slots): the new tree, 1 root + 3 leaves.
	assert_eq!(scenario(false, true), expected());
}

#[test]
fn control_tree_replaced_in_two_transactions_without_reader() {
	assert_eq!(scenario_tx(false, false, false), expected());
}

#[test]
fn tree_replaced_in_two_transactions_while_a_reader_holds_the_old_one() {
	assert_eq!(scenario_tx(false, true, false), expected());
}

#[test]
fn tree_replaced_while_a_reader_holds_the_old_one_ref_counted() {
	assert_eq!(scenario(true, true), expected());
}
