# Imposes one schedule on tests/hunt_H2C11_1_gdb.rs: the writer thread is preempted inside
# DbInner::commit_changes after the `used_trees` marks of its InsertTree were computed
# (src/db.rs:522-547) and before the commit is queued (commit_raw, src/db.rs:635); the pruner
# thread runs its whole DereferenceTree commit in between.
set pagination off
set confirm off
set breakpoint pending on
set print thread-events off
break hunt_h2c11_writer_about_to_commit
run
# The writer is about to call commit_changes. Stop it right after the marks were computed.
break db.rs:549
continue
python
import gdb
victim = gdb.selected_thread()
print("writer stopped at", gdb.selected_frame().find_sal().symtab.filename, gdb.selected_frame().find_sal().line)
pruner = None
for t in gdb.selected_inferior().threads():
    if t.name == "pruner":
        pruner = t
assert pruner is not None, "no pruner thread"
gdb.execute("set scheduler-locking on")
pruner.switch()
gdb.execute("break hunt_h2c11_pruner_commit_returned")
gdb.execute("continue")
print("pruner commit returned while the writer is still inside commit_changes")
gdb.execute("delete")
gdb.execute("set scheduler-locking off")
victim.switch()
gdb.execute("continue")
end
