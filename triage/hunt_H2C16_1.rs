// Property C16: "If any file operation of the pipeline fails (at any point, and from then on) the
// failure is reported, reads keep returning committed data, no panic occurs, and after the fault is
// gone reopening yields a prefix of the committed transactions that includes everything synced
// before the failure."
//
// Violation: a log *append* that fails in the middle of a record leaves a torn record at the end of
// the log file that is still being appended to (`Log::end_record` keeps the `Appending` writer).
// The file is later handed to the reader as if it was complete (`Log::flush_one`), and the reader
// of a running database (`DbInner::enact_logs(false)`) applies a record entry by entry WITHOUT
// checking its checksum first.  The index entries of the torn record (they come first in a record)
// are written to the index table, the values they point to never arrive.  A key that was committed,
// fsynced, enacted and whose log was already cleaned long before the fault is gone after reopening.
//
// No background threads here: every pipeline stage is driven by hand, the failing stage returns the
// error to the caller, then the database is dropped (fault still present) and reopened (fault gone).
//
// The fault is a real errno returned by write(2)/fdatasync(2)/ftruncate(2), interposed in this test
// binary, starting at one particular write(2) and persisting for every later call:
//  * `torn_append_all_ops_fail_no_wal_sync`: `sync_wal = false`; from the fault on EVERY
//    write/fdatasync/ftruncate/msync of a database file fails (EIO).
//  * `torn_append_disk_full_default_sync`: default options (`sync_wal = true`); from the fault on
//    every write(2) to a database file fails with ENOSPC (a full disk: appends fail for ever,
//    fdatasync/ftruncate of existing data still work).
//
// Run: cargo test --offline --features instrumentation --test hunt_H2C16_1

use parity_db::{Db, Options};
use std::{
	panic::{catch_unwind, AssertUnwindSafe},
	sync::atomic::{AtomicBool, AtomicI32, AtomicUsize, Ordering::SeqCst},
};

const MARKER: &[u8] = b"hunt_H2C16_db";

// Fault state.
static ARMED: AtomicBool = AtomicBool::new(false); // the next large write(2) starts the fault
static FAILING: AtomicBool = AtomicBool::new(false); // fault present
static FAIL_ALL: AtomicBool = AtomicBool::new(false); // also fail fdatasync/ftruncate/msync
static ERRNO: AtomicI32 = AtomicI32::new(libc::EIO);
static FAILED_CALLS: AtomicUsize = AtomicUsize::new(0);

fn is_db_fd(fd: libc::c_int) -> bool {
	if fd <= 2 {
		return false
	}
	let mut link = [0u8; 64];
	let name = format!("/proc/self/fd/{fd}\0");
	let mut buf = [0u8; 512];
	link[..name.len()].copy_from_slice(name.as_bytes());
	let n = unsafe {
		libc::readlink(link.as_ptr() as *const libc::c_char, buf.as_mut_ptr() as *mut _, buf.len())
	};
	if n <= 0 {
		return false
	}
	buf[..n as usize].windows(MARKER.len()).any(|w| w == MARKER)
}

fn fail() -> isize {
	FAILED_CALLS.fetch_add(1, SeqCst);
	unsafe { *libc::__errno_location() = ERRNO.load(SeqCst) };
	-1
}

#[no_mangle]
pub unsafe extern "C" fn write(
	fd: libc::c_int,
	buf: *const libc::c_void,
	count: libc::size_t,
) -> libc::ssize_t {
	if (ARMED.load(SeqCst) || FAILING.load(SeqCst)) && is_db_fd(fd) {
		// `BufWriter` hands anything of 8 KiB or more straight to the file.
		if count >= 8192 && ARMED.swap(false, SeqCst) {
			FAILING.store(true, SeqCst);
		}
		if FAILING.load(SeqCst) {
			return fail()
		}
	}
	libc::syscall(libc::SYS_write, fd, buf, count) as libc::ssize_t
}

#[no_mangle]
pub unsafe extern "C" fn fdatasync(fd: libc::c_int) -> libc::c_int {
	if FAILING.load(SeqCst) && FAIL_ALL.load(SeqCst) && is_db_fd(fd) {
		return fail() as libc::c_int
	}
	libc::syscall(libc::SYS_fdatasync, fd) as libc::c_int
}

#[no_mangle]
pub unsafe extern "C" fn fsync(fd: libc::c_int) -> libc::c_int {
	if FAILING.load(SeqCst) && FAIL_ALL.load(SeqCst) && is_db_fd(fd) {
		return fail() as libc::c_int
	}
	libc::syscall(libc::SYS_fsync, fd) as libc::c_int
}

#[no_mangle]
pub unsafe extern "C" fn ftruncate64(fd: libc::c_int, len: libc::off64_t) -> libc::c_int {
	if FAILING.load(SeqCst) && FAIL_ALL.load(SeqCst) && is_db_fd(fd) {
		return fail() as libc::c_int
	}
	libc::syscall(libc::SYS_ftruncate, fd, len) as libc::c_int
}

#[no_mangle]
pub unsafe extern "C" fn ftruncate(fd: libc::c_int, len: libc::off_t) -> libc::c_int {
	ftruncate64(fd, len as libc::off64_t)
}

#[no_mangle]
pub unsafe extern "C" fn msync(
	addr: *mut libc::c_void,
	len: libc::size_t,
	flags: libc::c_int,
) -> libc::c_int {
	// Only database tables are mapped by this binary.
	if FAILING.load(SeqCst) && FAIL_ALL.load(SeqCst) {
		return fail() as libc::c_int
	}
	libc::syscall(libc::SYS_msync, addr, len, flags) as libc::c_int
}

fn options(path: &std::path::Path, sync_wal: bool) -> Options {
	let mut options = Options::with_columns(path, 1);
	options.with_background_thread = false;
	options.always_flush = true;
	options.sync_wal = sync_wal;
	options
}

// The fault state is global: one scenario at a time.
static SERIAL: std::sync::Mutex<()> = std::sync::Mutex::new(());

fn scenario(sync_wal: bool, fail_all: bool, errno: i32) {
	let _serial = SERIAL.lock().unwrap_or_else(|e| e.into_inner());
	let _ = env_logger::try_init();
	ARMED.store(false, SeqCst);
	FAILING.store(false, SeqCst);
	FAIL_ALL.store(fail_all, SeqCst);
	ERRNO.store(errno, SeqCst);
	FAILED_CALLS.store(0, SeqCst);

	let dir = tempfile::Builder::new()
		.prefix("hunt_H2C16_db")
		.tempdir_in(env!("CARGO_TARGET_TMPDIR"))
		.unwrap();
	let options = options(dir.path(), sync_wal);

	let k_old = b"old key".to_vec();
	let v_old = vec![0x11u8; 100];
	let k_mid = b"middle key".to_vec();
	let v_mid = vec![0x22u8; 100];
	let v_big = vec![0x33u8; 16000];

	let db = Db::open_or_create(&options).unwrap();

	// T1: committed, logged, fsynced, enacted, tables flushed, log truncated. Entirely done with.
	db.commit(vec![(0u8, k_old.clone(), Some(v_old.clone()))]).unwrap();
	db.process_commits().unwrap();
	db.flush_logs().unwrap();
	db.enact_logs().unwrap();
	db.clean_logs().unwrap();
	assert_eq!(db.get(0, &k_old).unwrap(), Some(v_old.clone()));

	// T2: committed and logged, its log file is still open for appending.
	db.commit(vec![(0u8, k_mid.clone(), Some(v_mid.clone()))]).unwrap();
	db.process_commits().unwrap();

	// T3 replaces the value of the old key by a 16 KB one. The append of its record fails when the
	// value bytes are written, and every write fails from then on.
	db.commit(vec![(0u8, k_old.clone(), Some(v_big.clone()))]).unwrap();
	ARMED.store(true, SeqCst);
	let r = db.process_commits();
	assert!(FAILING.load(SeqCst), "the fault was not reached");
	assert!(r.is_err(), "the failing log append must be reported");
	eprintln!("process_commits returned: {}", r.unwrap_err());

	// Reads keep working.
	assert_eq!(db.get(0, &k_mid).unwrap(), Some(v_mid.clone()));
	assert!(db.get(0, &k_old).unwrap().is_some());

	// Shutdown with the fault still present.
	drop(db);
	eprintln!("calls failed by the fault: {}", FAILED_CALLS.load(SeqCst));

	// Restart, the fault is gone.
	FAILING.store(false, SeqCst);
	ARMED.store(false, SeqCst);
	let db = Db::open(&options).expect("reopen");
	let got_mid = db.get(0, &k_mid).unwrap();
	let got_old = catch_unwind(AssertUnwindSafe(|| db.get(0, &k_old)));
	eprintln!(
		"after reopen: middle key = {:?}, old key = {:?}",
		got_mid.as_ref().map(|v| v.len()),
		got_old.as_ref().map(|r| r.as_ref().map(|v| v.as_ref().map(|v| v.len())))
	);
	let got_old = got_old.expect("get panicked after reopen").expect("get failed after reopen");
	// Allowed: [T1], [T1, T2] or [T1, T2, T3].
	assert!(
		got_old == Some(v_old.clone()) || (got_old == Some(v_big.clone()) && got_mid.is_some()),
		"T1 was enacted and its log cleaned before the fault, but after reopening its key reads {:?} \
		 (expected the 100 byte value of T1, or the 16000 byte value of T3)",
		got_old.map(|v| v.len()),
	);
	assert!(got_mid.is_none() || got_mid == Some(v_mid));
}

#[test]
fn torn_append_all_ops_fail_no_wal_sync() {
	scenario(false, true, libc::EIO);
}

#[test]
fn torn_append_disk_full_default_sync() {
	scenario(true, false, libc::ENOSPC);
}
