// Property C05, finding 2: a point read returns a value that no transaction has ever written
// (the first part of one value followed by parts of the value of ANOTHER key).
//
// Run with:
//   cargo test --offline --features instrumentation --test hunt_H2C05_2 -- --nocapture
//
// Column: `ref_counted` + `preimage` (the configuration used for trie nodes). Values larger than
// 32 KiB are stored as a chain of 4 KiB parts; only the first part carries the key.
//
// Schedule (one reader thread, one committing thread, the pipeline stages as they run in the
// background workers; the reader is held at a `log::trace!` call of the library with a logger
// installed by the test, so nothing but an ordinary preemption is simulated):
//   1. K -> VK (40000 bytes) is committed and fully enacted.
//   2. T = [remove K, insert K2 -> V2 (40000 bytes)] is committed.
//   3. reader: get(K) starts. It reads part 0 of K's chain (the key matches), is preempted
//      before it reads part 1.
//   4. log worker logs T, commit worker enacts T. T frees the chain of K and builds the chain
//      of K2 out of the same slots.
//   5. reader continues, follows the `next` pointers it finds and returns
//      VK[part 0] ++ V2[part 8] ++ V2[part 9].
// A correct implementation returns VK (T not observed) or None (T observed).
#![cfg(feature = "instrumentation")]

use parity_db::{ColumnOptions, Db, Operation, Options};
use std::{
	cell::Cell,
	sync::{
		atomic::{AtomicBool, AtomicUsize, Ordering},
		Condvar, Mutex,
	},
	time::{Duration, Instant},
};

const COL: u8 = 0;

thread_local! {
	static IS_READER: Cell<bool> = Cell::new(false);
}

struct Gate {
	flag: Mutex<bool>,
	cv: Condvar,
}

impl Gate {
	const fn new() -> Gate {
		Gate { flag: Mutex::new(false), cv: Condvar::new() }
	}
	fn open(&self) {
		*self.flag.lock().unwrap() = true;
		self.cv.notify_all();
	}
	// Returns false if the gate did not open within `secs` seconds.
	fn wait(&self, secs: u64) -> bool {
		let deadline = Instant::now() + Duration::from_secs(secs);
		let mut flag = self.flag.lock().unwrap();
		while !*flag {
			let now = Instant::now();
			if now >= deadline {
				return false
			}
			flag = self.cv.wait_timeout(flag, deadline - now).unwrap().0;
		}
		true
	}
}

static ARMED: AtomicBool = AtomicBool::new(false);
static READER_SLOT_QUERIES: AtomicUsize = AtomicUsize::new(0);
static READER_PARKED: Gate = Gate::new();
static READER_RESUME: Gate = Gate::new();
static RECORD_LOGGED: Gate = Gate::new();

// Holds the reader thread at the trace statement that precedes the read of the second part of a
// multipart value, and reports when a log record has been published.
struct Hook;

impl log::Log for Hook {
	fn enabled(&self, _: &log::Metadata) -> bool {
		true
	}
	fn log(&self, record: &log::Record) {
		if !ARMED.load(Ordering::SeqCst) || record.target() != "parity-db" {
			return
		}
		let msg = record.args().to_string();
		if IS_READER.with(|r| r.get()) {
			// src/table.rs, `for_parts`: "{table}: Query slot {index}" is emitted once per part
			// that is not found in the log overlay, just before the part is read from the file.
			if msg.starts_with("t00-ff: Query slot") {
				let n = READER_SLOT_QUERIES.fetch_add(1, Ordering::SeqCst);
				if n == 1 {
					READER_PARKED.open();
					assert!(READER_RESUME.wait(60), "reader was never resumed");
				}
			}
		} else if msg.starts_with("Finalizing log record") {
			// src/log.rs, `end_record`: the record is in the log overlay now.
			RECORD_LOGGED.open();
		}
	}
	fn flush(&self) {}
}

static HOOK: Hook = Hook;

fn key(n: u8) -> Vec<u8> {
	(0..32u8).map(|i| i.wrapping_mul(7).wrapping_add(n)).collect()
}

fn value(tag: u8) -> Vec<u8> {
	// Every 4 KiB part is recognisable: tag, then a counter.
	(0..40000u32).map(|i| if i % 2 == 0 { tag } else { (i / 4000) as u8 }).collect()
}

#[test]
fn point_read_returns_a_mix_of_the_values_of_two_keys() {
	log::set_logger(&HOOK).unwrap();
	log::set_max_level(log::LevelFilter::Trace);

	let dir = tempfile::tempdir().unwrap();
	let mut options = Options::with_columns(dir.path(), 1);
	options.columns[0] =
		ColumnOptions { ref_counted: true, preimage: true, uniform: true, ..Default::default() };
	options.with_background_thread = false;
	options.stats = false;
	let db = Db::open_or_create(&options).unwrap();

	let k = key(1);
	let k2 = key(2);
	let vk = value(0xaa);
	let v2 = value(0xbb);

	// 1. K -> VK, all the way into the tables.
	db.commit(vec![(COL, k.clone(), Some(vk.clone()))]).unwrap();
	db.process_commits().unwrap();
	db.flush_logs().unwrap();
	db.enact_logs().unwrap();
	assert_eq!(db.get(COL, &k).unwrap().as_ref(), Some(&vk));

	// 2. T = [remove K, insert K2].
	db.commit_changes(vec![
		(COL, Operation::Dereference(k.clone())),
		(COL, Operation::Set(k2.clone(), v2.clone())),
	])
	.unwrap();

	ARMED.store(true, Ordering::SeqCst);
	let got = std::thread::scope(|s| {
		// 3. The reader.
		let reader = s.spawn(|| {
			IS_READER.with(|r| r.set(true));
			db.get(COL, &k).unwrap()
		});
		assert!(READER_PARKED.wait(30), "the reader did not reach part 1 of the value");

		// 4. Log worker: logs T (and then waits for the reader before it cleans the commit
		// overlay, as the real worker does). Commit worker: enacts T.
		let log_worker = s.spawn(|| db.process_commits().unwrap());
		if RECORD_LOGGED.wait(3) {
			db.flush_logs().unwrap();
			db.enact_logs().unwrap();
		} else {
			// An implementation in which the reader keeps the writers out for the whole lookup
			// does not get here: the schedule is not possible, let the reader finish.
			println!("T could not be logged while the reader was inside its lookup");
		}

		// 5.
		READER_RESUME.open();
		let got = reader.join().unwrap();
		log_worker.join().unwrap();
		got
	});
	ARMED.store(false, Ordering::SeqCst);

	let describe = |v: &Option<Vec<u8>>| match v {
		None => "None".to_string(),
		Some(v) if *v == vk => "VK".to_string(),
		Some(v) if *v == v2 => "V2".to_string(),
		Some(v) => {
			let from_vk = v.iter().step_by(2).filter(|b| **b == 0xaa).count() * 2;
			let from_v2 = v.iter().step_by(2).filter(|b| **b == 0xbb).count() * 2;
			format!(
				"{} bytes: about {} bytes of VK followed by about {} bytes of V2",
				v.len(),
				from_vk,
				from_v2
			)
		},
	};
	println!("get(K) concurrent with T returned: {}", describe(&got));
	println!("get(K) afterwards: {}", describe(&db.get(COL, &k).unwrap()));
	println!("get(K2) afterwards: {}", describe(&db.get(COL, &k2).unwrap()));

	assert!(
		got.is_none() || got.as_ref() == Some(&vk),
		"get(K) returned a value that no transaction wrote: {}",
		describe(&got)
	);
}
