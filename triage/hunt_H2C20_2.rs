//! C20: a destination directory that already holds an (empty) database keeps its own salt. The
//! hashed keys of the source are committed as they are, so after `migrate` has returned `Ok(())`
//! none of the keys can be read in the destination - neither in the migrated column nor in the
//! column that was copied.
//!
//! Run: cargo test --offline --test hunt_H2C20_2
//!
//! `migrate` explicitly supports an existing destination (it compares the format version of its
//! metadata with the source). The test accepts both outcomes a correct implementation can have:
//! `migrate` refuses the destination, or it returns `Ok` and every key is readable.

use parity_db::{CompressionType, Db, Options};

const KEYS: u32 = 100;

fn key(i: u32) -> Vec<u8> {
	format!("key {i}").into_bytes()
}

fn value(c: u8, i: u32) -> Vec<u8> {
	format!("value {c} {i}").into_bytes()
}

fn count_present(options: &Options) -> (u32, u32) {
	let db = Db::open(options).unwrap();
	let c0 = (0..KEYS).filter(|i| db.get(0, &key(*i)).unwrap() == Some(value(0, *i))).count();
	let c1 = (0..KEYS).filter(|i| db.get(1, &key(*i)).unwrap() == Some(value(1, *i))).count();
	(c0 as u32, c1 as u32)
}

fn run(destination_exists: bool) {
	let dir = tempfile::tempdir().unwrap();
	let source_dir = dir.path().join("source");
	let dest_dir = dir.path().join("dest");

	let source_options = Options::with_columns(&source_dir, 2);
	{
		let db = Db::open_or_create(&source_options).unwrap();
		db.commit((0..KEYS).map(|i| (0u8, key(i), Some(value(0, i))))).unwrap();
		db.commit((0..KEYS).map(|i| (1u8, key(i), Some(value(1, i))))).unwrap();
	}

	// Column 0 changes its compression: it is selected automatically. Column 1 is only copied.
	let mut dest_options = Options::with_columns(&dest_dir, 2);
	dest_options.columns[0].compression = CompressionType::Lz4;

	if destination_exists {
		// The user creates the new database first (it gets a random salt, like the source did).
		drop(Db::open_or_create(&dest_options).unwrap());
	}

	let result = parity_db::migrate(&source_dir, dest_options.clone(), false, &[]);
	assert_eq!(count_present(&source_options), (KEYS, KEYS));
	match result {
		Err(e) => eprintln!("migrate refused the destination: {e:?}"),
		Ok(()) => assert_eq!(
			count_present(&dest_options),
			(KEYS, KEYS),
			"migrate returned Ok(()) but keys are missing in the destination (readable in column 0, column 1)"
		),
	}
}

#[test]
fn existing_empty_destination_keeps_its_own_salt() {
	run(true);
}

/// Control: the same migration into a directory that does not exist yet.
#[test]
fn control_new_destination() {
	run(false);
}
