#![cfg(feature = "instrumentation")]
// Clean close hangs forever when `sync_data = false` and the commit worker is one log file
// behind at the time of the close.
// Run: cargo test --offline --features instrumentation --test hunt_HC01_2
//
// The stepping API is used to drive the pipeline exactly as the background workers do
// (log worker = process_commits, flush worker = flush_logs, commit worker = enact_logs,
// cleanup worker = clean_logs), so the state at the time of the drop is one the threaded
// database reaches whenever it is closed while the commit worker still has a flushed log
// file to enact: 16 retained ("dirty") logs, one flushed log in the read queue, a few
// records in the log that is being appended.
use parity_db::{Db, Options};
use std::{sync::mpsc, time::Duration};

fn key(i: u32) -> Vec<u8> {
	format!("key-{i}").into_bytes()
}
fn val(i: u32) -> Vec<u8> {
	format!("value-{i}").into_bytes()
}

#[test]
fn close_with_sync_data_off_terminates_and_keeps_data() {
	let tmp = tempfile::tempdir().unwrap();
	let mut options = Options::with_columns(tmp.path(), 1);
	options.sync_data = false; // documented option, KEEP_LOGS = 16 logs are retained
	options.with_background_thread = false;

	let db = Db::open_or_create(&options).unwrap();
	let mut n = 0;
	// 17 log files go through the whole pipeline. The cleanup stage retains 16 of them,
	// as it does in a long running database with `sync_data = false`.
	for _ in 0..17 {
		db.commit(vec![(0u8, key(n), Some(val(n)))]).unwrap();
		n += 1;
		db.process_commits().unwrap();
		db.flush_logs().unwrap();
		db.enact_logs().unwrap();
		db.clean_logs().unwrap();
	}
	// One more commit is logged and flushed, but not enacted yet (commit worker is behind).
	db.commit(vec![(0u8, key(n), Some(val(n)))]).unwrap();
	n += 1;
	db.process_commits().unwrap();
	db.flush_logs().unwrap();
	// And one is logged into the log file that is still being appended.
	db.commit(vec![(0u8, key(n), Some(val(n)))]).unwrap();
	n += 1;
	db.process_commits().unwrap();

	for i in 0..n {
		assert_eq!(db.get(0, &key(i)).unwrap(), Some(val(i)));
	}

	// Clean close.
	let (tx, rx) = mpsc::channel();
	std::thread::spawn(move || {
		drop(db);
		let _ = tx.send(());
	});
	if rx.recv_timeout(Duration::from_secs(20)).is_err() {
		panic!("Db::drop did not return within 20 seconds: clean close hangs");
	}

	// Reopen: all committed data is there.
	let db = Db::open(&options).unwrap();
	for i in 0..n {
		assert_eq!(db.get(0, &key(i)).unwrap(), Some(val(i)));
	}
}

// Same failure with the real background workers (timing dependent, so several attempts).
// `always_flush` only makes log files small (one per flush instead of one per 64 MiB) so
// that 16 retained logs are reached quickly.
#[test]
fn threaded_close_with_sync_data_off_terminates() {
	for attempt in 0..20 {
		let tmp = tempfile::tempdir().unwrap();
		let mut options = Options::with_columns(tmp.path(), 1);
		options.sync_data = false;
		options.always_flush = true;
		let db = Db::open_or_create(&options).unwrap();
		let mut n = 0;
		for _ in 0..40 {
			db.commit(vec![(0u8, key(n), Some(val(n)))]).unwrap();
			n += 1;
			std::thread::sleep(Duration::from_millis(5));
		}
		// Burst, then close right away.
		for _ in 0..300 {
			db.commit((0..20).map(|j| (0u8, key(n * 100 + j), Some(vec![7u8; 2000])))).unwrap();
			n += 1;
		}
		let (tx, rx) = mpsc::channel();
		std::thread::spawn(move || {
			drop(db);
			let _ = tx.send(());
		});
		if rx.recv_timeout(Duration::from_secs(30)).is_err() {
			panic!("attempt {attempt}: Db::drop did not return within 30 seconds");
		}
	}
}
