// HC06 finding 1, corroboration with the production configuration: background threads on, public
// API only, no `instrumentation` feature, no hooks. Not deterministic (it is a race), but on the
// unmodified code it fails within a fraction of a second: about 0.3% of all reads are torn.
// The deterministic demonstration is tests/hunt_HC06_1.rs.
//
// A `ref_counted` hash column holds one of two 400000-byte values at any time. The writer
// alternates: one commit dereferences the stored key (count 1 -> 0) and stores the other key.
// Readers `get` both keys all the time. Every answer must be the key's own value or `None`.
//
// Run: cargo test --offline --release --test hunt_HC06_1_stress
use parity_db::{ColumnOptions, Db, Operation, Options};
use std::sync::atomic::{AtomicBool, Ordering};

fn value(len: usize, seed: u8) -> Vec<u8> {
	(0..len).map(|i| ((i * 31 + i / 251) as u8) ^ seed).collect()
}

#[test]
fn concurrent_reads_of_a_chained_value_are_never_torn() {
	let dir = tempfile::tempdir().unwrap();
	let mut options = Options::with_columns(dir.path(), 1);
	options.columns[0] = ColumnOptions { ref_counted: true, preimage: true, ..Default::default() };
	let db = Db::open_or_create(&options).unwrap();
	let keys: Vec<Vec<u8>> = (0..2u8).map(|i| vec![i + 1; 8]).collect();
	let vals: Vec<Vec<u8>> = (0..2u8).map(|i| value(400_000, 0x11 * (i + 1))).collect();
	let stop = AtomicBool::new(false);

	let (torn, reads) = std::thread::scope(|s| {
		let readers: Vec<_> = (0..4)
			.map(|_| {
				s.spawn(|| {
					let mut torn = Vec::new();
					let mut reads = 0usize;
					while !stop.load(Ordering::Relaxed) {
						for i in 0..2 {
							reads += 1;
							match db.get(0, &keys[i]) {
								Ok(None) => (),
								Ok(Some(v)) if v == vals[i] => (),
								Ok(Some(v)) => {
									torn.push(format!("key {}: {} bytes never stored", i, v.len()));
									stop.store(true, Ordering::Relaxed);
								},
								Err(e) => {
									torn.push(format!("key {}: error {:?}", i, e));
									stop.store(true, Ordering::Relaxed);
								},
							}
						}
					}
					(torn, reads)
				})
			})
			.collect();

		db.commit(vec![(0u8, keys[0].clone(), Some(vals[0].clone()))]).unwrap();
		let start = std::time::Instant::now();
		let mut cur = 0usize;
		while start.elapsed().as_secs() < 15 && !stop.load(Ordering::Relaxed) {
			std::thread::sleep(std::time::Duration::from_millis(3));
			let next = 1 - cur;
			let r = db.commit_changes(vec![
				(0u8, Operation::Dereference(keys[cur].clone())),
				(0u8, Operation::Set(keys[next].clone(), vals[next].clone())),
			]);
			if r.is_err() {
				stop.store(true, Ordering::Relaxed);
			}
			r.unwrap();
			cur = next;
		}
		stop.store(true, Ordering::Relaxed);
		readers.into_iter().map(|r| r.join().unwrap()).fold(
			(Vec::new(), 0usize),
			|mut a, mut b| {
				a.0.append(&mut b.0);
				(a.0, a.1 + b.1)
			},
		)
	});
	assert!(torn.is_empty(), "after {} reads: {:?}", reads, torn);
}
