# Schedule for tests/hunt_H2C18_1.rs.
#
#   cargo test --offline --features instrumentation --test hunt_H2C18_1 --no-run
#   gdb -batch -x tests/hunt_H2C18_1.gdb --args target/debug/deps/hunt_H2C18_1-<hash> \
#       --test-threads=1 --nocapture
#
# The migrating thread is stopped in `migrate` right after it has seen that the destination has
# no metadata (src/migration.rs:56, first statement of the `None` arm) and is held there while the
# test thread opens the destination directory and commits through its handle. Then everything
# runs freely again.

set pagination off
set confirm off
set breakpoint pending on
set print thread-events off

break migration.rs:56
break hunt_h2c18_holder_ready

run

python
import gdb

def frames(thread):
    thread.switch()
    names = []
    f = gdb.newest_frame()
    while f is not None:
        n = f.name()
        if n:
            names.append(n)
        f = f.older()
    return names

victim = gdb.selected_thread()
top = gdb.newest_frame().name() or ""
print("[gdb] stopped in thread %d at %s" % (victim.num, top))
assert "migrate" in " ".join(frames(victim)), "expected to stop inside migrate first"

other = None
for t in gdb.selected_inferior().threads():
    if t.num == victim.num:
        continue
    if any("refused_migrate_leaves_locked_destination_untouched" in n for n in frames(t)):
        other = t
assert other is not None, "test thread not found"

# Only the test thread runs until it holds a live handle on the destination.
other.switch()
gdb.execute("set scheduler-locking on")
gdb.execute("continue")
print("[gdb] test thread reached: %s" % (gdb.newest_frame().name(),))
assert "hunt_h2c18_holder_ready" in (gdb.newest_frame().name() or "")

# Let everybody run again.
gdb.execute("set scheduler-locking off")
gdb.execute("delete")
gdb.execute("continue")
end
